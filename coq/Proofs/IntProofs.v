(* Integer fields: digit counting, the range derived from a length, int literals. *)
From Coq Require Import Lia ZifyBool.
From CP Require Import Model.Base Model.Ranges Model.Lex Model.FieldTypes Spec.FieldSpec.
Local Open Scope Z_scope.
Ltac Zify.zify_post_hook ::= Z.to_euclidean_division_equations.

(* ---------- number of digits *)
Lemma ndig_fuel_spec : forall fuel n, 0 <= n -> n < 2 ^ Z.of_nat fuel ->
  let k := ndig_fuel fuel n in
  1 <= k /\ ((n = 0 /\ k = 1) \/ (10 ^ (k - 1) <= n < 10 ^ k)).
Proof.
  induction fuel as [|f IH]; intros n Hn Hlt; cbn [ndig_fuel].
  - change (2 ^ Z.of_nat 0) with 1 in Hlt. split; [lia|left; lia].
  - destruct (n <? 10) eqn:E.
    + apply Z.ltb_lt in E. split; [lia|]. destruct (Z.eq_dec n 0) as [->|]; [left; auto|right].
      change (10 ^ (1 - 1)) with 1. change (10 ^ 1) with 10. lia.
    + apply Z.ltb_ge in E.
      assert (Hq : 0 <= n / 10) by (apply Z.div_pos; lia).
      assert (Hq2 : n / 10 < 2 ^ Z.of_nat f).
      { apply Z.div_lt_upper_bound; [lia|].
        rewrite Nat2Z.inj_succ, Z.pow_succ_r in Hlt by lia.
        assert (0 < 2 ^ Z.of_nat f) by (apply Z.pow_pos_nonneg; lia). lia. }
      specialize (IH (n / 10) Hq Hq2). cbv zeta in IH.
      destruct IH as [K1 [[H0 _]|IH]].
      { exfalso. lia. }
      set (k := ndig_fuel f (n / 10)) in *.
      split; [lia|right].
      replace (1 + k - 1) with (Z.succ (k - 1)) by lia. replace (1 + k) with (Z.succ k) by lia.
      rewrite !Z.pow_succ_r by lia. lia.
Qed.

Lemma ndig_fuel_pos f m : 1 <= ndig_fuel f m.
Proof.
  revert m. induction f as [|f IH]; intros m; cbn [ndig_fuel]; [lia|].
  destruct (m <? 10); [lia|]. specialize (IH (m / 10)). lia.
Qed.
Lemma ndig_pos n : 1 <= ndig n.
Proof. apply ndig_fuel_pos. Qed.

Lemma ndig_spec n : 0 < n -> 10 ^ (ndig n - 1) <= n < 10 ^ ndig n.
Proof.
  intros Hn. unfold ndig.
  destruct (ndig_fuel_spec (S (Z.to_nat (Z.log2 n))) n ltac:(lia)) as [_ [[? _]|H]]; [|lia|exact H].
  rewrite Nat2Z.inj_succ, Z2Nat.id by apply Z.log2_nonneg.
  apply Z.log2_spec; lia.
Qed.
Lemma ndig_0 : ndig 0 = 1.
Proof. reflexivity. Qed.

Lemma ndig_le n k : 0 < n -> 1 <= k -> (ndig n <= k <-> n < 10 ^ k).
Proof.
  intros Hn Hk. pose proof (ndig_spec n Hn) as [A B]. pose proof (ndig_pos n). split; intro H0.
  - eapply Z.lt_le_trans; [exact B|]. apply Z.pow_le_mono_r; lia.
  - destruct (Z_le_gt_dec (ndig n) k); [assumption|exfalso].
    assert (10 ^ k <= 10 ^ (ndig n - 1)) by (apply Z.pow_le_mono_r; lia). lia.
Qed.
Lemma ndig_ge n k : 0 < n -> 1 <= k -> (k <= ndig n <-> 10 ^ (k - 1) <= n).
Proof.
  intros Hn Hk. pose proof (ndig_spec n Hn) as [A B]. pose proof (ndig_pos n). split; intro H0.
  - eapply Z.le_trans; [|exact A]. apply Z.pow_le_mono_r; lia.
  - destruct (Z_le_gt_dec k (ndig n)); [assumption|exfalso].
    assert (10 ^ (ndig n) <= 10 ^ (k - 1)) by (apply Z.pow_le_mono_r; lia). lia.
Qed.

(* ---------- text length of an integer against powers of ten *)
Lemma len_le v k : 1 <= k ->
  (length_of_int v <= k <-> - (10 ^ (k - 1) - 1) <= v <= 10 ^ k - 1).
Proof.
  intros Hk. unfold length_of_int.
  assert (0 < 10 ^ k) by (apply Z.pow_pos_nonneg; lia).
  assert (0 < 10 ^ (k - 1)) by (apply Z.pow_pos_nonneg; lia).
  destruct (v <? 0) eqn:E; [apply Z.ltb_lt in E|apply Z.ltb_ge in E].
  - destruct (Z.eq_dec k 1) as [->|].
    + pose proof (ndig_pos (- v)). change (10 ^ (1 - 1)) with 1. lia.
    + pose proof (ndig_le (- v) (k - 1) ltac:(lia) ltac:(lia)). lia.
  - destruct (Z.eq_dec v 0) as [->|]; [rewrite ndig_0; lia|].
    pose proof (ndig_le v k ltac:(lia) ltac:(lia)). lia.
Qed.
Lemma len_ge v k : 2 <= k ->
  (k <= length_of_int v <-> v <= - 10 ^ (k - 2) \/ 10 ^ (k - 1) <= v).
Proof.
  intros Hk. unfold length_of_int.
  assert (0 < 10 ^ (k - 2)) by (apply Z.pow_pos_nonneg; lia).
  assert (0 < 10 ^ (k - 1)) by (apply Z.pow_pos_nonneg; lia).
  destruct (v <? 0) eqn:E; [apply Z.ltb_lt in E|apply Z.ltb_ge in E].
  - pose proof (ndig_ge (- v) (k - 1) ltac:(lia) ltac:(lia)).
    replace (k - 1 - 1) with (k - 2) in * by lia. lia.
  - destruct (Z.eq_dec v 0) as [->|]; [rewrite ndig_0; lia|].
    pose proof (ndig_ge v k ltac:(lia) ltac:(lia)). lia.
Qed.
Lemma len_pos v : 1 <= length_of_int v.
Proof. unfold length_of_int. pose proof (ndig_pos v). pose proof (ndig_pos (- v)). destruct (v <? 0); lia. Qed.

(* ---------- one length item *)
Definition length_item_wf (it : item) : Prop :=
  match it with
  | (Some l, Some u) => 0 <= l /\ 1 <= u /\ l <= u
  | (Some l, None) => 0 <= l
  | (None, Some u) => 1 <= u
  | (None, None) => False
  end.

Lemma item_from_length it parts v : length_item_wf it -> items_of_length_item it = Some parts ->
  existsb (fun p => item_contains p v) parts = item_contains it (length_of_int v).
Proof.
  intros Hwf Hp. pose proof (len_pos v) as Lp.
  destruct it as [[l|] [u|]]; cbn [length_item_wf] in Hwf; try contradiction;
    unfold items_of_length_item, is_small in Hp.
  - (* l ... u *)
    destruct ((l =? 0) || (l =? 1)) eqn:Es.
    + destruct (u =? 1) eqn:E1; injection Hp as <-; cbn [existsb item_contains]; rewrite orb_false_r.
      * assert (u = 1) by lia. subst u. pose proof (len_le v 1 ltac:(lia)) as L.
        change (10 ^ (1 - 1)) with 1 in L. change (10 ^ 1) with 10 in L.
        apply eq_true_iff_eq. rewrite !andb_true_iff, !Z.leb_le. lia.
      * pose proof (len_le v u ltac:(lia)) as L. unfold pow10.
        apply eq_true_iff_eq. rewrite !andb_true_iff, !Z.leb_le. lia.
    + injection Hp as <-. cbn [existsb item_contains]. rewrite orb_false_r. unfold pow10.
      pose proof (len_le v u ltac:(lia)) as L. pose proof (len_ge v l ltac:(lia)) as G.
      assert (0 < 10 ^ (l - 2)) by (apply Z.pow_pos_nonneg; lia).
      assert (0 < 10 ^ (l - 1)) by (apply Z.pow_pos_nonneg; lia).
      assert (10 ^ (l - 2) <= 10 ^ (u - 1)) by (apply Z.pow_le_mono_r; lia).
      assert (10 ^ (l - 1) <= 10 ^ u) by (apply Z.pow_le_mono_r; lia).
      apply eq_true_iff_eq. rewrite orb_true_iff, !andb_true_iff, !Z.leb_le. lia.
  - (* l ... *)
    destruct ((l =? 0) || (l =? 1)) eqn:Es; [discriminate|].
    injection Hp as <-. cbn [existsb item_contains]. rewrite orb_false_r. unfold pow10.
    pose proof (len_ge v l ltac:(lia)) as G.
    apply eq_true_iff_eq. rewrite orb_true_iff, !Z.leb_le. lia.
  - (* ... u *)
    cbn in Hp. destruct (u =? 1) eqn:E1; injection Hp as <-; cbn [existsb item_contains]; rewrite orb_false_r.
    + assert (u = 1) by lia. subst u. pose proof (len_le v 1 ltac:(lia)) as L.
      change (10 ^ (1 - 1)) with 1 in L. change (10 ^ 1) with 10 in L.
      apply eq_true_iff_eq. rewrite !andb_true_iff, !Z.leb_le. lia.
    + pose proof (len_le v u ltac:(lia)) as L. unfold pow10.
      apply eq_true_iff_eq. rewrite !andb_true_iff, !Z.leb_le. lia.
Qed.

(* an item for which the code returns the unlimited range accepts every length an integer can have *)
Lemma item_unlimited it v : length_item_wf it -> items_of_length_item it = None ->
  item_contains it (length_of_int v) = true.
Proof.
  intros Hwf Hp. pose proof (len_pos v) as Lp.
  destruct it as [[l|] [u|]]; cbn [length_item_wf] in Hwf; try contradiction;
    unfold items_of_length_item, is_small in Hp.
  - destruct ((l =? 0) || (l =? 1)); [destruct (u =? 1)|]; discriminate.
  - destruct ((l =? 0) || (l =? 1)) eqn:Es; [|discriminate]. cbn. lia.
  - cbn in Hp. destruct (u =? 1); discriminate.
Qed.

Lemma existsb_flat_map {A B} (f : A -> list B) (p : B -> bool) (l : list A) :
  existsb p (flat_map f l) = existsb (fun a => existsb p (f a)) l.
Proof. induction l as [|a l IH]; cbn; [reflexivity|]. rewrite existsb_app, IH. reflexivity. Qed.

Lemma wf_not_bad it : length_item_wf it -> length_item_bad it = false.
Proof. destruct it as [[l|] [u|]]; cbn; intros; try contradiction; lia. Qed.

Theorem range_from_length_spec its v : its <> [] -> Forall length_item_wf its ->
  match range_from_length (Some its) with
  | LItems parts => range_validate (Some parts) v = range_validate (Some its) (length_of_int v)
  | LAll => range_validate (Some its) (length_of_int v) = true
  | LRangeError => False
  end.
Proof.
  intros Hne Hwf. unfold range_from_length.
  assert (existsb length_item_bad its = false) as ->.
  { apply not_true_is_false. intros E. apply existsb_exists in E as [it [Hin Hb]].
    rewrite Forall_forall in Hwf. rewrite (wf_not_bad it (Hwf it Hin)) in Hb. discriminate. }
  destruct (existsb (fun it => match items_of_length_item it with None => true | Some _ => false end) its) eqn:Eu.
  - apply existsb_exists in Eu as [it [Hin Hn]]. cbn [range_validate]. apply existsb_exists. exists it. split; [exact Hin|].
    rewrite Forall_forall in Hwf. apply item_unlimited; [apply Hwf; exact Hin|].
    destruct (items_of_length_item it); [discriminate|reflexivity].
  - assert (E : existsb (fun p => item_contains p v) (flat_map (fun it => match items_of_length_item it with Some l => l | None => [] end) its)
               = existsb (fun it => item_contains it (length_of_int v)) its).
    { rewrite existsb_flat_map. clear Hne. induction its as [|it its IH]; [reflexivity|].
      cbn [existsb] in *. apply orb_false_iff in Eu as [E1 E2]. inversion Hwf as [|? ? W1 W2]; subst.
      rewrite IH by assumption. f_equal.
      destruct (items_of_length_item it) as [parts|] eqn:Ep; [|discriminate].
      apply item_from_length; assumption. }
    destruct (flat_map _ its) as [|p ps] eqn:Ef.
    + cbn [range_validate]. rewrite <- E. (* no parts: impossible, every limited item yields parts *)
      exfalso. destruct its as [|it its']; [congruence|].
      cbn [existsb] in Eu. apply orb_false_iff in Eu as [E1 _]. cbn [flat_map] in Ef.
      destruct it as [[l|] [u|]]; unfold items_of_length_item, is_small in *;
        repeat match goal with
               | H : context [if ?b then _ else _] |- _ => destruct b
               | H : context [match ?o with Some _ => _ | None => _ end] |- _ => destruct o
               end; cbn in *; try discriminate.
    + cbn [range_validate]. exact E.
Qed.

(* ---------- int(str(v)) = v *)
Definition dstep (a : Z) (c : N) : Z := a * 10 + (Z.of_N c - 48).
Definition dval (l : text) (a : Z) : Z := fold_left dstep l a.

Lemma dval_app l1 l2 a : dval (l1 ++ l2) a = dval l2 (dval l1 a).
Proof. apply fold_left_app. Qed.
Lemma dval_shift l a : dval l a = a * 10 ^ Z.of_nat (length l) + dval l 0.
Proof.
  revert a. induction l as [|c l IH]; intros a; cbn [dval fold_left length].
  - change (10 ^ Z.of_nat 0) with 1. lia.
  - fold (dval l (dstep a c)). fold (dval l (dstep 0 c)). rewrite (IH (dstep a c)), (IH (dstep 0 c)).
    rewrite Nat2Z.inj_succ, Z.pow_succ_r by lia. unfold dstep. ring.
Qed.

Lemma digit_char m : 0 <= m < 10 -> is_digit (Z.to_N (48 + m)) = true /\ Z.of_N (Z.to_N (48 + m)) - 48 = m.
Proof. intros H. unfold is_digit, in_rng. split; lia. Qed.

Lemma int_digits_all l : forall acc b, forallb is_digit l = true -> l <> [] \/ b = true ->
  int_digits l acc b = Some (dval l acc).
Proof.
  induction l as [|c l IH]; intros acc b Hd Hne; cbn [int_digits].
  - destruct Hne as [Hne| ->]; [congruence|reflexivity].
  - cbn [forallb] in Hd. apply andb_true_iff in Hd as [Hc Hl]. rewrite Hc.
    rewrite IH by (auto). reflexivity.
Qed.

Lemma nat_text_fuel_spec : forall fuel n acc, 0 <= n -> n < 2 ^ Z.of_nat fuel -> forallb is_digit acc = true ->
  let t := nat_text_fuel fuel n acc in
  forallb is_digit t = true /\ dval t 0 = n * 10 ^ Z.of_nat (length acc) + dval acc 0
  /\ (fuel <> O -> Z.of_nat (length t) = ndig_fuel fuel n + Z.of_nat (length acc)) /\ (fuel <> O -> t <> []).
Proof.
  induction fuel as [|f IH]; intros n acc Hn Hlt Hacc; cbn [nat_text_fuel].
  - change (2 ^ Z.of_nat 0) with 1 in Hlt. assert (n = 0) by lia. subst n.
    cbv zeta. repeat split; try assumption; try congruence; try lia.
  - cbv zeta. pose proof (digit_char (n mod 10) ltac:(lia)) as [D1 D2].
    destruct (n <? 10) eqn:E.
    + cbn [ndig_fuel]. rewrite E. apply Z.ltb_lt in E. assert (n mod 10 = n) as Hm by lia.
      repeat split.
      * cbn [forallb]. rewrite D1. exact Hacc.
      * unfold dval at 1. cbn [fold_left]. fold (dval acc (dstep 0 (Z.to_N (48 + n mod 10)))).
        rewrite dval_shift. unfold dstep. rewrite D2, Hm. ring.
      * intros _. cbn [length]. lia.
      * intros _. discriminate.
    + cbn [ndig_fuel]. rewrite E. apply Z.ltb_ge in E.
      assert (Hq : 0 <= n / 10) by (apply Z.div_pos; lia).
      assert (Hq2 : n / 10 < 2 ^ Z.of_nat f).
      { apply Z.div_lt_upper_bound; [lia|].
        rewrite Nat2Z.inj_succ, Z.pow_succ_r in Hlt by lia.
        assert (0 < 2 ^ Z.of_nat f) by (apply Z.pow_pos_nonneg; lia). lia. }
      assert (Hacc' : forallb is_digit (Z.to_N (48 + n mod 10) :: acc) = true) by (cbn [forallb]; rewrite D1; exact Hacc).
      assert (f <> O) as Hf.
      { intros ->. change (2 ^ Z.of_nat 0) with 1 in Hq2. lia. }
      destruct (IH (n / 10) (Z.to_N (48 + n mod 10) :: acc) Hq Hq2 Hacc') as [A [B [C D]]].
      repeat split.
      * exact A.
      * rewrite B. cbn [length]. rewrite Nat2Z.inj_succ, Z.pow_succ_r by lia.
        unfold dval at 1. cbn [fold_left]. fold (dval acc (dstep 0 (Z.to_N (48 + n mod 10)))).
        rewrite (dval_shift acc (dstep 0 _)). unfold dstep. rewrite D2.
        set (P := 10 ^ Z.of_nat (length acc)). set (V := dval acc 0).
        rewrite (Z.div_mod n 10) at 3 by lia. ring.
      * intros _. rewrite (C Hf). cbn [length]. lia.
      * intros _. exact (D Hf).
Qed.

Lemma nat_text_spec n : 0 <= n ->
  forallb is_digit (nat_text n) = true /\ dval (nat_text n) 0 = n /\ Z.of_nat (length (nat_text n)) = ndig n /\ nat_text n <> [].
Proof.
  intros Hn. unfold nat_text, ndig.
  assert (n < 2 ^ Z.of_nat (S (Z.to_nat (Z.log2 n)))) as Hlt.
  { rewrite Nat2Z.inj_succ, Z2Nat.id by apply Z.log2_nonneg.
    destruct (Z.eq_dec n 0) as [->|]; [reflexivity|]. apply Z.log2_spec; lia. }
  destruct (nat_text_fuel_spec (S (Z.to_nat (Z.log2 n))) n [] Hn Hlt eq_refl) as [A [B [C D]]].
  repeat split.
  - exact A.
  - rewrite B. cbn. lia.
  - rewrite C by discriminate. cbn. lia.
  - apply D. discriminate.
Qed.

(* the text of an integer has as many characters as length_of_int says *)
Theorem int_text_length v : Z.of_nat (length (int_text v)) = length_of_int v.
Proof.
  unfold int_text, length_of_int. destruct (v <? 0) eqn:E.
  - destruct (nat_text_spec (- v) ltac:(lia)) as [_ [_ [L _]]]. cbn [length]. lia.
  - destruct (nat_text_spec v ltac:(lia)) as [_ [_ [L _]]]. exact L.
Qed.

Lemma digits_ascii l : forallb is_digit l = true -> has_non_ascii_t l = false.
Proof.
  intros H. unfold has_non_ascii_t. apply not_true_is_false. intros E.
  apply existsb_exists in E as [c [Hin Hc]]. rewrite forallb_forall in H. specialize (H c Hin).
  unfold is_digit, in_rng in H. lia.
Qed.
Lemma digits_no_space l : forallb is_digit l = true -> forall c, In c l -> is_c_space c = false.
Proof. intros H c Hin. rewrite forallb_forall in H. specialize (H c Hin). unfold is_digit, is_c_space, in_rng in *. lia. Qed.

Lemma lstrip_by_head p c l : p c = false -> lstrip_by p (c :: l) = c :: l.
Proof. intros H. cbn. rewrite H. reflexivity. Qed.
Lemma strip_by_id p (l : text) : (forall c, In c l -> p c = false) -> strip_by p l = l.
Proof.
  intros H. unfold strip_by.
  assert (forall m : text, (forall c, In c m -> p c = false) -> lstrip_by p m = m) as A.
  { intros [|c m] Hm; [reflexivity|]. apply lstrip_by_head. apply Hm. left. reflexivity. }
  rewrite (A l H). rewrite A; [apply rev_involutive|]. intros c Hin. apply H. apply in_rev. exact Hin.
Qed.

Theorem py_int_int_text v : py_int (int_text v) = IOk v.
Proof.
  unfold py_int, int_text. destruct (v <? 0) eqn:E.
  - destruct (nat_text_spec (- v) ltac:(lia)) as [D [V [_ NE]]].
    assert (has_non_ascii_t (45%N :: nat_text (- v)) = false) as ->.
    { unfold has_non_ascii_t. cbn [existsb]. fold (has_non_ascii_t (nat_text (- v))). rewrite digits_ascii by exact D. reflexivity. }
    rewrite strip_by_id.
    + cbn [N.eqb Pos.eqb]. change (N.eqb 45 45) with true. cbv iota beta.
      rewrite int_digits_all by (auto). rewrite V. f_equal. lia.
    + intros c [<-|Hin]; [reflexivity|]. eapply digits_no_space; eassumption.
  - destruct (nat_text_spec v ltac:(lia)) as [D [V [_ NE]]].
    rewrite digits_ascii by exact D.
    rewrite strip_by_id by (apply digits_no_space; exact D).
    destruct (nat_text v) as [|c r] eqn:Et; [congruence|].
    assert (is_digit c = true) as Hc by (cbn [forallb] in D; apply andb_true_iff in D; tauto).
    assert (N.eqb c 45 = false /\ N.eqb c 43 = false) as [-> ->] by (unfold is_digit, in_rng in Hc; lia).
    rewrite int_digits_all by (auto || (left; discriminate)). rewrite V. reflexivity.
Qed.
