(* Header and validation limit (C07): lemmas about yield_spec and validate_api. *)
From Coq Require Import Lia.
From CP Require Import Model.Base Model.Ranges Model.Fields Model.Validio Spec.ValidioSpec Proofs.ValidioProofs.

Section P.
  Context {CS : Type}.
  Implicit Types (c : cid CS) (sts : list CS).

  (* header rows are neither validated nor returned, whatever they contain *)
  Lemma yield_spec_header c limit rows : forall hdr k sts, k + length hdr <= S (c_header c) ->
    yield_spec c limit k sts (hdr ++ rows) = yield_spec c limit (k + length hdr) sts rows.
  Proof.
    induction hdr as [|h t IH]; intros k sts Hk; cbn [app length yield_spec].
    - rewrite Nat.add_0_r. reflexivity.
    - cbn [length] in Hk. destruct (Nat.ltb_spec (c_header c) k); [lia|].
      rewrite IH by lia. f_equal. lia.
  Qed.

  Lemma header_ignored_lemma c limit sts hdr hdr' rows :
    length hdr = length hdr' -> length hdr <= c_header c ->
    yield_spec c limit 1 sts (hdr ++ rows) = yield_spec c limit 1 sts (hdr' ++ rows).
  Proof. intros E H. rewrite !yield_spec_header by lia. rewrite E. reflexivity. Qed.

  Lemma header_rows_not_returned c limit sts hdr rows :
    length hdr = c_header c ->
    yield_spec c limit 1 sts (hdr ++ rows) = yield_spec c limit (S (c_header c)) sts rows.
  Proof. intros E. rewrite yield_spec_header by lia. f_equal. lia. Qed.

  (* rows whose number exceeds the limit are returned unchanged and unvalidated *)
  Lemma yield_spec_beyond c n : forall raws j sts, n < j ->
    yield_spec c (Some n) j sts raws = passthrough c j raws.
  Proof.
    induction raws as [|row rest IH]; intros j sts Hj; cbn [yield_spec passthrough]; [reflexivity|].
    destruct (Nat.ltb (c_header c) j).
    - cbn [before_limit]. destruct (Nat.leb_spec j n); [lia|]. rewrite IH by lia. reflexivity.
    - apply IH. lia.
  Qed.

  (* a limit N behaves like no limit on the raw rows numbered <= N and passes the others through *)
  Lemma limit_split_lemma c n : forall raws k sts, k <= S n ->
    yield_spec c (Some n) k sts raws =
    yield_spec c None k sts (firstn (S n - k) raws) ++ passthrough c (k + (S n - k)) (skipn (S n - k) raws).
  Proof.
    induction raws as [|row rest IH]; intros k sts Hk.
    - rewrite firstn_nil, skipn_nil. reflexivity.
    - destruct (Nat.eq_dec k (S n)) as [->|Hne].
      + rewrite Nat.sub_diag. cbn [firstn skipn yield_spec app]. rewrite Nat.add_0_r.
        apply (yield_spec_beyond c n (row :: rest)). lia.
      + replace (S n - k) with (S (n - k)) by lia. cbn [firstn skipn yield_spec].
        destruct (Nat.ltb (c_header c) k).
        * cbn [before_limit]. destruct (Nat.leb_spec k n); [|lia].
          destruct (validate_row c sts {| l_line := k - 1; l_cell := 0 |} row) as [[[sts' [e|]] l'] evs0];
            cbn [app]; f_equal; rewrite (IH (S k) sts') by lia;
            replace (S n - S k) with (n - k) by lia;
            replace (k + S (n - k)) with (S k + (n - k)) by lia; reflexivity.
        * rewrite (IH (S k) sts) by lia. replace (S n - S k) with (n - k) by lia.
          replace (k + S (n - k)) with (S k + (n - k)) by lia. reflexivity.
  Qed.

  Lemma limit_zero_lemma c sts raws : yield_spec c (Some 0) 1 sts raws = passthrough c 1 raws.
  Proof. apply yield_spec_beyond. lia. Qed.

  (* the validate-only API looks at no more than header + N raw rows (N >= 1) *)
  Lemma validate_api_stops_lemma c n sts_in a b fault :
    length a = c_header c + S n ->
    validate_api c (Some (S n)) sts_in (a ++ b) fault = validate_api c (Some (S n)) sts_in a false.
  Proof.
    intros La. unfold validate_api.
    destruct (Nat.leb_spec (c_header c + S n) (length (a ++ b))) as [_|H]; [|rewrite app_length in H; lia].
    destruct (Nat.leb_spec (c_header c + S n) (length a)) as [_|H]; [|lia].
    rewrite <- La. rewrite firstn_app, Nat.sub_diag, firstn_all. cbn [firstn]. rewrite app_nil_r.
    reflexivity.
  Qed.
End P.
