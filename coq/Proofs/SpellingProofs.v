(* C11: spellings of a character value that denote the same code point (decimal code, the character itself). *)
From Coq Require Import Lia ZifyBool String.
From CP Require Import Model.Base Generated.Consts Model.Ranges Model.Lex Model.RangeParse Model.DataFormat Model.FieldTypes Spec.FieldSpec
  Proofs.BaseProofs Proofs.IntProofs Proofs.RangeParseProofs Proofs.RangeTextProofs.
Local Open Scope Z_scope.

(* the raw token stream of a text made of digits, '-', ':', ',' and blanks (no leading blank) *)
Lemma generated_stoks l : stoks_ok l = true -> head_visible l = true ->
  generated_tokens (stoks_text l) = LOk (stoks_tokens l ++ [eof_tok]).
Proof.
  intros Hok Hh. unfold generated_tokens.
  assert (exists c r, stoks_text l = c :: r /\ is_blank c = false) as [c [r [Es Hc]]].
  { destruct l as [|[ds|c|] l']; try discriminate.
    - cbn [stoks_ok stok_ok] in Hok. apply andb_true_iff in Hok as [Hok _]. apply andb_true_iff in Hok as [Hok _]. apply andb_true_iff in Hok as [Hn Hd].
      destruct ds as [|d ds]; [discriminate|]. exists d, (ds ++ stoks_text l'). split; [reflexivity|].
      cbn [forallb] in Hd. apply andb_true_iff in Hd as [Hd _]. apply (digit_class d Hd).
    - cbn [stoks_ok stok_ok] in Hok. apply andb_true_iff in Hok as [Hok _]. apply andb_true_iff in Hok as [Hok _].
      exists c, (stoks_text l'). split; [reflexivity|]. apply (op_class c Hok). }
  assert (span is_blank (stoks_text l) = ([], stoks_text l)) as ->.
  { rewrite Es. cbn [span]. rewrite Hc. reflexivity. }
  rewrite (benign_in_domain _ (stoks_text_benign l Hok)). cbn [negb].
  rewrite (lex_stoks l (S (length (stoks_text l))) Hok (Nat.lt_succ_diag_r _)).
  destruct (stoks_tokens l) as [|t0 ts] eqn:Et.
  - destruct l as [|[ds|c0|] l']; discriminate.
  - assert (tk t0 = KNumber \/ tk t0 = KOp) as Hk.
    { destruct l as [|[ds|c0|] l']; try discriminate; rewrite stoks_tokens_cons in Et; cbn [stok_token app] in Et; injection Et as <- _; auto. }
    destruct Hk as [Hk|Hk]; rewrite Hk; reflexivity.
Qed.

(* a code point written as its decimal number *)
Theorem decimal_code_spelling n : 0 <= n <= 1114111 -> validated_character (nat_text n) = ChOk (Z.to_N n).
Proof.
  intros Hn. destruct (nat_text_spec n ltac:(lia)) as [D [V [_ NE]]].
  assert (validated_character_tokens (nat_text n) = ChOk (Z.to_N n)) as T.
  { unfold validated_character_tokens.
    pose proof (generated_stoks [TNum (nat_text n)]) as G. unfold stoks_text, stoks_tokens in G. cbn [flat_map stok_text stok_token app] in G.
    rewrite app_nil_r in G. rewrite G; [|cbn [stoks_ok stok_ok]; rewrite D; destruct (nat_text n); [congruence|reflexivity]|reflexivity].
    cbn [is_eof tk T tkind_eqb tt]. unfold code_for_number. rewrite int_base0_nat_text by lia. cbn [app].
    change (is_eof eof_tok) with true. cbv iota. assert (1114111 <? n = false) as -> by lia. reflexivity. }
  unfold validated_character.
  assert (strip (nat_text n) = nat_text n) as ->.
  { unfold strip, rstrip.
    assert (forall m : text, (forall c, In c m -> is_py_space c = false) -> lstrip m = m) as A.
    { intros [|c m] Hm; [reflexivity|]. cbn [lstrip]. rewrite (Hm c (or_introl eq_refl)). reflexivity. }
    assert (forall c, In c (nat_text n) -> is_py_space c = false) as Sp.
    { intros c Hc. rewrite forallb_forall in D. specialize (D c Hc). unfold is_digit, in_rng, is_py_space in *. lia. }
    rewrite (A _ Sp). rewrite A; [apply rev_involutive|]. intros c Hc. apply Sp. apply in_rev. exact Hc. }
  destruct (nat_text n) as [|c [|c2 r]] eqn:E; [congruence| |exact T].
  cbn [forallb] in D. apply andb_true_iff in D as [Dc _]. rewrite Dc. exact T.
Qed.

(* a character that is neither a digit nor white space stands for itself, also with blanks around it *)
Theorem literal_character_spelling c : is_digit c = false -> validated_character [c] = ChOk c \/ strip [c] = [].
Proof.
  intros H. unfold validated_character. destruct (strip [c]) as [|x [|y r]] eqn:E; [right; reflexivity| |].
  - left. assert (x = c) as ->.
    { unfold strip, rstrip in E. cbn [lstrip] in E. destruct (is_py_space c); cbn in E; [discriminate|]. destruct (is_py_space c); cbn in E; congruence. }
    rewrite H. reflexivity.
  - exfalso. unfold strip, rstrip in E. cbn [lstrip] in E. destruct (is_py_space c); cbn in E; try discriminate. destruct (is_py_space c); cbn in E; discriminate.
Qed.

(* both spellings of the same code point set the same item delimiter *)
Theorem item_delimiter_spellings_agree d c known : is_digit c = false -> strip [c] <> [] -> c <> 0%N -> (Z.of_N c) <= 1114111 ->
  set_property d KEY_ITEM_DELIMITER (nat_text (Z.of_N c)) known = set_property d KEY_ITEM_DELIMITER [c] known.
Proof.
  intros Hd Hs H0 Hmax. unfold set_property.
  destruct (get_attr (df_attrs d) (replace_blanks KEY_ITEM_DELIMITER)); [|reflexivity].
  change (text_eqb (replace_blanks KEY_ITEM_DELIMITER) KEY_FORMAT) with false.
  change (text_eqb (replace_blanks KEY_ITEM_DELIMITER) (txt "is_valid")) with false.
  change (text_eqb (replace_blanks KEY_ITEM_DELIMITER) KEY_ENCODING) with false.
  change (text_eqb (replace_blanks KEY_ITEM_DELIMITER) KEY_HEADER) with false.
  change (text_eqb (replace_blanks KEY_ITEM_DELIMITER) KEY_SHEET) with false.
  change (text_eqb (replace_blanks KEY_ITEM_DELIMITER) KEY_ALLOWED_CHARACTERS) with false.
  change (text_eqb (replace_blanks KEY_ITEM_DELIMITER) KEY_DECIMAL_SEPARATOR) with false.
  change (text_eqb (replace_blanks KEY_ITEM_DELIMITER) KEY_ESCAPE_CHARACTER) with false.
  change (text_eqb (replace_blanks KEY_ITEM_DELIMITER) KEY_QUOTE_CHARACTER) with false.
  change (text_eqb (replace_blanks KEY_ITEM_DELIMITER) KEY_THOUSANDS_SEPARATOR) with false.
  change (text_eqb (replace_blanks KEY_ITEM_DELIMITER) KEY_ITEM_DELIMITER) with true.
  cbn [orb]. cbv iota.
  rewrite (decimal_code_spelling (Z.of_N c)) by lia. rewrite N2Z.id.
  destruct (literal_character_spelling c Hd) as [-> |E]; [reflexivity|contradiction].
Qed.
