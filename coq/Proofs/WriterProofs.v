From Coq Require Import Lia.
From CP Require Import Model.Base Model.Ranges Model.Fields Model.Validio Model.History Model.Writer Proofs.ValidioProofs.

Section P.
  Context {CS : Type}.

  Fixpoint accepted_of (rows : list (list text)) (es : list (option err)) : list (list text) :=
    match rows, es with
    | r :: rows', None :: es' => r :: accepted_of rows' es'
    | _ :: rows', Some _ :: es' => accepted_of rows' es'
    | _, _ => []
    end.

  Lemma write_row_effect (c : cid CS) (w : wstate CS) row w' oe evs :
    write_row c w row = (w', oe, evs) ->
    match oe with
    | None => w_rows w' = w_rows w ++ [row] /\ l_line (w_loc w') = S (l_line (w_loc w))
    | Some _ => w_rows w' = w_rows w /\ l_line (w_loc w') = l_line (w_loc w)
    end.
  Proof.
    unfold write_row. destruct (Nat.leb (c_header c) (l_line (w_loc w))).
    - destruct (validate_row c (w_sts w) (w_loc w) row) as [[[sts' [e|]] l'] evs0] eqn:V;
        pose proof (validate_row_loc _ _ _ _ _ _ _ _ V) as HL;
        intros H; injection H as <- <- <-; cbn; auto.
    - intros H; injection H as <- <- <-. cbn. auto.
  Qed.

  (* the writer emits exactly the rows it accepted, in order; a rejected call changes neither the output nor the
     line counter, and later calls proceed *)
  Lemma write_all_emits (c : cid CS) : forall rows w wf es,
    write_all c w rows = (wf, es) ->
    length es = length rows /\
    w_rows wf = w_rows w ++ accepted_of rows es /\
    l_line (w_loc wf) = l_line (w_loc w) + length (accepted_of rows es).
  Proof.
    induction rows as [|row rest IH]; intros w wf es H.
    - cbn in H. injection H as <- <-. cbn. rewrite app_nil_r. auto.
    - cbn [write_all] in H. destruct (write_row c w row) as [[w' oe] evs] eqn:W.
      destruct (write_all c w' rest) as [wf' es'] eqn:R. injection H as <- <-.
      destruct (IH _ _ _ R) as [A [B C]]. pose proof (write_row_effect _ _ _ _ _ _ W) as Eff.
      destruct oe as [e|]; cbn [accepted_of length]; destruct Eff as [E1 E2]; rewrite B, C, E1, E2.
      + repeat split; auto.
      + rewrite <- app_assoc. cbn. repeat split; auto; lia.
  Qed.

  (* the same for a target whose encoding cannot represent every character: a row the encoding refuses is a rejected
     call like any other - nothing of it is emitted *)
  Lemma write_row_enc_effect enc (c : cid CS) (w : wstate CS) row w' oe evs :
    write_row_enc enc c w row = (w', oe, evs) ->
    match oe with
    | None => w_rows w' = w_rows w ++ [row] /\ l_line (w_loc w') = S (l_line (w_loc w)) /\ forallb (forallb enc) row = true
    | Some _ => w_rows w' = w_rows w /\ l_line (w_loc w') = l_line (w_loc w)
    end.
  Proof.
    unfold write_row_enc. destruct (write_row c w row) as [[w1 e1] evs1] eqn:W.
    pose proof (write_row_effect _ _ _ _ _ _ W) as Eff.
    destruct e1 as [e|].
    - intros H. injection H as <- <- <-. exact Eff.
    - destruct (forallb (forallb enc) row) eqn:E; intros H; injection H as <- <- <-; cbn; destruct Eff; auto.
      split; [reflexivity|]. destruct (Nat.leb (c_header c) (l_line (w_loc w)) || df_fixed (c_fmt c)); reflexivity.
  Qed.
  Lemma write_all_enc_emits enc (c : cid CS) : forall rows w wf es,
    write_all_enc enc c w rows = (wf, es) ->
    length es = length rows /\
    w_rows wf = w_rows w ++ accepted_of rows es /\
    l_line (w_loc wf) = l_line (w_loc w) + length (accepted_of rows es) /\
    Forall (fun r => forallb (forallb enc) r = true) (accepted_of rows es).
  Proof.
    induction rows as [|row rest IH]; intros w wf es H.
    - cbn in H. injection H as <- <-. cbn. rewrite app_nil_r. auto.
    - cbn [write_all_enc] in H. destruct (write_row_enc enc c w row) as [[w' oe] evs] eqn:W.
      destruct (write_all_enc enc c w' rest) as [wf' es'] eqn:R. injection H as <- <-.
      destruct (IH _ _ _ R) as [A [B [C D]]]. pose proof (write_row_enc_effect _ _ _ _ _ _ _ W) as Eff.
      destruct oe as [e|]; cbn [accepted_of length].
      + destruct Eff as [E1 E2]. rewrite B, C, E1, E2. repeat split; auto.
      + destruct Eff as [E1 [E2 E3]]. rewrite B, C, E1, E2. rewrite <- app_assoc. cbn. repeat split; auto; lia.
  Qed.
End P.

(* fixed-width output: every emitted item has exactly the width of its field when the value fits *)
Lemma pad_length w cell : length cell <= w -> length (pad w cell) = w.
Proof. intros H. unfold pad. rewrite app_length, repeat_length. lia. Qed.
Lemma pad_prefix w cell : exists n, pad w cell = cell ++ repeat SP n.
Proof. eexists. reflexivity. Qed.

Lemma fixed_text_app ws sep a b : fixed_text ws sep (a ++ b) = fixed_text ws sep a ++ fixed_text ws sep b.
Proof. unfold fixed_text. rewrite map_app, concat_app. reflexivity. Qed.
