From Coq Require Import Lia.
From CP Require Import Model.Base.

Lemma text_eqb_eq (a b : text) : text_eqb a b = true <-> a = b.
Proof.
  revert b. induction a as [|x a IH]; intros [|y b]; cbn; split; intros H; try discriminate; try reflexivity.
  - apply andb_true_iff in H as [H1 H2]. apply N.eqb_eq in H1. apply IH in H2. congruence.
  - injection H as -> ->. rewrite N.eqb_refl. apply IH. reflexivity.
Qed.
Lemma text_eqb_refl a : text_eqb a a = true.
Proof. apply text_eqb_eq. reflexivity. Qed.
Lemma text_eqb_neq (a b : text) : text_eqb a b = false <-> a <> b.
Proof. rewrite <- text_eqb_eq. destruct (text_eqb a b); split; congruence. Qed.

Lemma list_eqb_eq {A} (eqb : A -> A -> bool) (H : forall x y, eqb x y = true <-> x = y) (a b : list A) :
  list_eqb eqb a b = true <-> a = b.
Proof.
  revert b. induction a as [|x a IH]; intros [|y b]; cbn; split; intros E; try discriminate; try reflexivity.
  - apply andb_true_iff in E as [E1 E2]. apply H in E1. apply IH in E2. congruence.
  - injection E as -> ->. apply andb_true_iff. split; [apply H; reflexivity|apply IH; reflexivity].
Qed.

Definition text_eq_dec : forall a b : text, {a = b} + {a <> b} := list_eq_dec N.eq_dec.

Lemma existsb_text_In (v : text) (l : list text) : existsb (text_eqb v) l = true <-> In v l.
Proof.
  rewrite existsb_exists. split.
  - intros [x [Hin E]]. apply text_eqb_eq in E. subst. assumption.
  - intros Hin. exists v. split; [assumption|apply text_eqb_refl].
Qed.
