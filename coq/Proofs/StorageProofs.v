(* C17: what the storage format can and cannot change. *)
From Coq Require Import Lia String.
From CP Require Import Model.Base Generated.Consts Model.Ranges Model.Lex Model.RangeParse Model.Dec Model.DecRange
  Model.DataFormat Model.Fields Model.FieldTypes Model.Cid Proofs.BaseProofs Proofs.CidProofs.
Local Open Scope Z_scope.

(* ---------- the CID: spreadsheets deliver every row padded to the sheet's width, and further empty rows *)
Lemma firstn_pad {A} (x : A) : forall n l a b, (n <= length l + a)%nat -> (n <= length l + b)%nat ->
  firstn n (l ++ repeat x a) = firstn n (l ++ repeat x b).
Proof.
  induction n as [|n IH]; intros l a b Ha Hb; [reflexivity|].
  destruct l as [|y l]; cbn [app length] in *.
  - destruct a as [|a]; [lia|]. destruct b as [|b]; [lia|]. cbn [repeat firstn]. f_equal.
    apply (IH [] a b); cbn; lia.
  - cbn [firstn]. f_equal. apply IH; lia.
Qed.
Lemma pad6_padded cells k : pad6 (cells ++ repeat [] k) = pad6 cells.
Proof.
  unfold pad6. rewrite <- app_assoc, <- repeat_app. apply firstn_pad; lia.
Qed.
Definition pad_cells (k : nat) (row : list text) : list text := row ++ repeat [] k.

Lemma row_step_padded e s row k : row <> [] -> row_step e s (pad_cells k row) = row_step e s row.
Proof.
  destruct row as [|c0 cells]; [congruence|]. intros _. unfold pad_cells, row_step. cbn [app].
  rewrite pad6_padded. reflexivity.
Qed.
(* a row without cells and a row of empty cells are both skipped *)
Lemma row_step_blank e s k : row_step e s (repeat [] k) = ROk s.
Proof. destruct k; [reflexivity|]. cbn [repeat]. apply comment_row_step. cbn. auto. Qed.

(* padding differs per row (csv rows are ragged, sheets rectangular): any padding of any row is irrelevant *)
Theorem cid_padding_irrelevant e rows (pads : list nat) : length pads = length rows ->
  cid_read e (map (fun p => pad_cells (fst p) (snd p)) (combine pads rows)) = cid_read e rows.
Proof.
  unfold cid_read. generalize cstate0 as s. generalize 0%nat as line. revert pads.
  induction rows as [|r rows IH]; intros pads line s Hl; destruct pads as [|k pads]; cbn [length] in Hl; try discriminate; [reflexivity|].
  cbn [combine map fst snd read_rows].
  assert (row_step e s (pad_cells k r) = row_step e s r) as ->.
  { destruct r as [|c0 cells]; [|apply row_step_padded; discriminate].
    unfold pad_cells. cbn [app]. rewrite row_step_blank. reflexivity. }
  destruct (row_step e s r); try reflexivity. apply IH. lia.
Qed.
(* trailing rows of empty cells do not change what is accepted *)
Definition blank_row (k : nat) : list text := repeat [] k.
Theorem cid_trailing_blank_rows_irrelevant e rows (blanks : list nat) :
  outcome (cid_read e (rows ++ map blank_row blanks)) = outcome (cid_read e rows).
Proof.
  induction blanks as [|k blanks IH]; [cbn; rewrite app_nil_r; reflexivity|].
  cbn [map]. rewrite (comment_rows_ignored e rows (blank_row k) (map blank_row blanks)); [exact IH|].
  destruct k; cbn; auto.
Qed.

(* ---------- the data: a field's verdict on a cell under delimited (default separators), ods and excel *)
Definition with_kind (k : fmtkind) (d : fdecl) : fdecl :=
  {| fd_type := fd_type d; fd_kind := k; fd_df := fd_df d; fd_empty := fd_empty d; fd_length := fd_length d; fd_rule := fd_rule d |}.
Definition not_fixed (k : fmtkind) : Prop := k <> KFixed.
Definition default_decfmt : decfmt := {| dsep := [DOT]; tsep := [] |}.

Definition hooks_agree (a b : decl (text -> hres)) (on : text -> Prop) : Prop :=
  match a, b with
  | DeclOk h1, DeclOk h2 => forall cell, on cell -> h1 cell = h2 cell
  | DeclInterface, DeclInterface | DeclLeak, DeclLeak | DeclOut, DeclOut => True
  | _, _ => False
  end.
Lemma hooks_agree_refl a on : hooks_agree a a on.
Proof. destruct a; cbn; auto. Qed.

Lemma kind_eqb_fixed k : not_fixed k -> fmtkind_eqb k KFixed = false.
Proof. destruct k; cbn; intros H; try reflexivity. exfalso. apply H. reflexivity. Qed.

Lemma integer_range_kind k1 k2 lt rule len : not_fixed k1 -> not_fixed k2 ->
  integer_valid_range k1 lt rule len = integer_valid_range k2 lt rule len.
Proof. intros H1 H2. unfold integer_valid_range. rewrite (kind_eqb_fixed k1 H1), (kind_eqb_fixed k2 H2). reflexivity. Qed.
Lemma decimal_separators_default k : not_fixed k -> decimal_separators k default_decfmt = default_decfmt.
Proof. destruct k; reflexivity. Qed.

(* the only place where the format matters: a date-only DateTime field under Excel drops a trailing " 00:00:00" *)
Lemma datetime_hook_kind k1 k2 rule cell :
  (k1 <> KExcel /\ k2 <> KExcel) \/ suffix_b NO_EXCEL_TIME cell = false \/ has_any STRPTIME_TIME_DIRECTIVES (strptime_format rule) = true ->
  datetime_hook k1 rule cell = datetime_hook k2 rule cell.
Proof.
  intros H. unfold datetime_hook. destruct (has_non_ascii_t rule || has_non_ascii_t cell); [reflexivity|]. cbv zeta.
  assert (forall k, (k <> KExcel \/ suffix_b NO_EXCEL_TIME cell = false \/ has_any STRPTIME_TIME_DIRECTIVES (strptime_format rule) = true) ->
          (if negb (has_any STRPTIME_TIME_DIRECTIVES (strptime_format rule)) && fmtkind_eqb k KExcel && suffix_b NO_EXCEL_TIME cell
           then firstn (length cell - length NO_EXCEL_TIME) cell else cell) = cell) as A.
  { intros k [Hk|[Hs|Ht]].
    - assert (fmtkind_eqb k KExcel = false) as -> by (destruct k; try reflexivity; congruence). rewrite andb_false_r. reflexivity.
    - rewrite Hs, andb_false_r. reflexivity.
    - rewrite Ht. reflexivity. }
  rewrite (A k1), (A k2); [reflexivity| |]; destruct H as [[H1 H2]|[H|H]]; auto.
Qed.

Theorem verdict_independent_of_storage_format d k1 k2 : not_fixed k1 -> not_fixed k2 -> fd_df d = default_decfmt ->
  hooks_agree (declare (with_kind k1 d)) (declare (with_kind k2 d))
    (fun cell => fd_type d <> TDateTime \/ (k1 <> KExcel /\ k2 <> KExcel) \/ suffix_b NO_EXCEL_TIME cell = false
                 \/ has_any STRPTIME_TIME_DIRECTIVES (strptime_format (fd_rule d)) = true).
Proof.
  intros H1 H2 Hdf. unfold declare, with_kind. cbn [fd_type fd_kind fd_df fd_empty fd_length fd_rule].
  destruct (fd_type d) eqn:Et.
  - (* Integer *) destruct (range_of_text (fd_length d)); try exact I.
    rewrite (integer_range_kind k1 k2) by assumption. apply hooks_agree_refl.
  - (* Decimal *) rewrite Hdf, !decimal_separators_default by assumption. apply hooks_agree_refl.
  - apply hooks_agree_refl.
  - apply hooks_agree_refl.
  - (* DateTime *) destruct (range_of_text (fd_length d)); try exact I.
    destruct (has_non_ascii_t (fd_rule d)); [exact I|]. cbv zeta.
    destruct (parse_format _ _) as [fmt|]; [destruct (has_dup (dirs_of fmt)); [exact I|]|]; cbn;
      intros cell [Hc|[Hc|[Hc|Hc]]]; try congruence; apply datetime_hook_kind; auto.
  - apply hooks_agree_refl.
  - apply hooks_agree_refl.
  - apply hooks_agree_refl.
Qed.

(* the guards in front of the hook see the format only through "fixed or not" and the allowed characters *)
Theorem guards_independent_of_storage_format allowed f cell e1 e2 :
  validated {| df_fixed := false; df_excel := e1; df_allowed := allowed |} f cell
  = validated {| df_fixed := false; df_excel := e2; df_allowed := allowed |} f cell.
Proof. reflexivity. Qed.

(* the carved out Excel rule really changes a verdict (known finding C17/excel-date-only-suffix, by design) *)
Theorem excel_date_suffix_changes_verdict :
  exists rule cell, datetime_hook KExcel rule cell <> datetime_hook KOds rule cell.
Proof. exists (txt "DD.MM.YYYY"), (txt "01.02.2003 00:00:00"). vm_compute. discriminate. Qed.
