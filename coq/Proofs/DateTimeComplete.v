(* C02 DateTime, completeness for canonical writing: a date/time written item by item, zero padded, in the layout of the
   rule is segmented by the strptime model into exactly its items. *)
From Coq Require Import Lia.
From CP Require Import Model.Base Model.Lex Model.FieldTypes Spec.FieldSpec Proofs.BaseProofs Proofs.IntProofs Proofs.DateTimeProofs.
Local Open Scope Z_scope.

(* ---------- the items of a layout as strptime sees them *)
Definition fitem_of (t : ltok) : fitem :=
  match t with
  | LDay => FDir 100 | LMonth => FDir 109 | LYear4 => FDir 89 | LYear2 => FDir 121
  | LHour => FDir 72 | LMinute => FDir 77 | LSecond => FDir 83 | LPercent => FLit 37 | LLit c => FLit c
  end.
(* literal characters that are no blanks (a blank would become "one or more blanks") *)
Definition lit_plain (t : ltok) : bool := match t with LLit c => lit_ok c && negb (is_u_space c) | _ => true end.

Lemma parse_format_layout l : forall fuel, (2 * length l < fuel)%nat -> forallb lit_plain l = true ->
  parse_format fuel (layout_directives l) = Some (map fitem_of l).
Proof.
  induction l as [|t l IH]; intros fuel Hf Hp; (destruct fuel as [|fuel]; [cbn in Hf; lia|]).
  - reflexivity.
  - cbn [forallb] in Hp. apply andb_true_iff in Hp as [Ht Hl].
    unfold layout_directives in *. cbn [flat_map map]. fold (layout_directives l).
    assert (forall d, known_directive d = true -> d <> 37%N -> parse_format (S fuel) ([37%N; d] ++ flat_map ltok_directive l) = Some (FDir d :: map fitem_of l)) as A.
    { intros d Hk Hd. cbn [app parse_format]. change (is_u_space 37) with false. change (N.eqb 37 37) with true. cbv iota. rewrite Hk.
      rewrite IH by (cbn [length] in Hf; try lia; exact Hl). apply N.eqb_neq in Hd. rewrite Hd. reflexivity. }
    destruct t; cbn [ltok_directive fitem_of]; try (apply A; [reflexivity|discriminate]).
    + (* %% *) cbn [app parse_format]. change (is_u_space 37) with false. change (N.eqb 37 37) with true. cbv iota.
      change (known_directive 37) with true. cbv iota. rewrite IH by (cbn [length] in Hf; try lia; exact Hl). reflexivity.
    + (* literal *) cbn [lit_plain] in Ht. apply andb_true_iff in Ht as [Ho Hs]. apply negb_true_iff in Hs.
      cbn [app parse_format]. rewrite Hs.
      assert (N.eqb c 37 = false) as ->.
      { unfold lit_ok in Ho. cbn [forallb] in Ho. apply andb_true_iff in Ho as [Ho _]. apply negb_true_iff in Ho. rewrite N.eqb_sym. exact Ho. }
      rewrite IH by (cbn [length] in Hf; try lia; exact Hl). reflexivity.
Qed.

(* ---------- a zero padded item is matched by the first alternative that fits, and that one takes all of it *)
Fixpoint first_match (l : list (list cp)) (z : text) : option (text * text) :=
  match l with
  | [] => None
  | ps :: l' => match try_alt ps z with Some r => Some r | None => first_match l' z end
  end.
Lemma try_alt_app ps : forall z rest, (length ps <= length z)%nat ->
  try_alt ps (z ++ rest) = match try_alt ps z with Some (m, r) => Some (m, r ++ rest) | None => None end.
Proof.
  induction ps as [|p ps IH]; intros z rest H; cbn [try_alt]; [reflexivity|].
  destruct z as [|c z]; [cbn in H; lia|]. cbn [app]. destruct (p c); [|reflexivity].
  rewrite IH by (cbn in H; lia). destruct (try_alt ps z) as [[a b]|]; reflexivity.
Qed.
Lemma first_alt_canon {R} (k : text -> text -> option R) l z rest x :
  Forall (fun ps => (length ps <= length z)%nat) l -> first_match l z = Some (z, []) -> k z rest = Some x ->
  first_alt k l (z ++ rest) = Some x.
Proof.
  induction l as [|ps l IH]; intros Hl Hm Hk; [discriminate|]. inversion Hl as [|? ? H1 H2]; subst.
  cbn [first_alt first_match] in *. rewrite try_alt_app by exact H1.
  destruct (try_alt ps z) as [[m r]|].
  - injection Hm as -> ->. cbn [app]. rewrite Hk. reflexivity.
  - apply IH; assumption.
Qed.

(* checked for every value of every item by evaluation, then lifted *)
Definition canon_ok (d : N) (w : nat) (v : Z) : bool :=
  forallb (fun ps => Nat.leb (length ps) (length (zpad w v))) (alts d)
  && match first_match (alts d) (zpad w v) with Some (m, []) => text_eqb m (zpad w v) | _ => false end
  && Z.eqb (group_value (zpad w v)) v.
Definition zrange (lo n : nat) : list Z := map Z.of_nat (seq lo n).
Lemma zrange_In lo n v : Z.of_nat lo <= v < Z.of_nat lo + Z.of_nat n -> In v (zrange lo n).
Proof.
  intros H. unfold zrange. apply in_map_iff. exists (Z.to_nat v). split; [lia|]. apply in_seq. lia.
Qed.
Lemma canon_day : forallb (canon_ok 100 2) (zrange 1 31) = true. Proof. vm_compute. reflexivity. Qed.
Lemma canon_month : forallb (canon_ok 109 2) (zrange 1 12) = true. Proof. vm_compute. reflexivity. Qed.
Lemma canon_year2 : forallb (canon_ok 121 2) (zrange 0 100) = true. Proof. vm_compute. reflexivity. Qed.
Lemma canon_hour : forallb (canon_ok 72 2) (zrange 0 24) = true. Proof. vm_compute. reflexivity. Qed.
Lemma canon_minute : forallb (canon_ok 77 2) (zrange 0 60) = true. Proof. vm_compute. reflexivity. Qed.
Lemma canon_second : forallb (canon_ok 83 2) (zrange 0 62) = true. Proof. vm_compute. reflexivity. Qed.
Lemma canon_year4 : forallb (canon_ok 89 4) (zrange 0 (Z.to_nat 10000)) = true. Proof. vm_compute. reflexivity. Qed.

Lemma canon_step {R} (k : text -> text -> option R) d w v rest x : canon_ok d w v = true ->
  k (zpad w v) rest = Some x -> first_alt k (alts d) (zpad w v ++ rest) = Some x.
Proof.
  intros H Hk. unfold canon_ok in H. apply andb_true_iff in H as [H _]. apply andb_true_iff in H as [H1 H2].
  apply first_alt_canon; [| |exact Hk].
  - apply Forall_forall. intros ps Hin. rewrite forallb_forall in H1. specialize (H1 ps Hin). apply Nat.leb_le. exact H1.
  - destruct (first_match (alts d) (zpad w v)) as [[m [|? ?]]|]; try discriminate.
    apply text_eqb_eq in H2. subst m. reflexivity.
Qed.
Lemma canon_value d w v : canon_ok d w v = true -> group_value (zpad w v) = v.
Proof. intros H. unfold canon_ok in H. apply andb_true_iff in H as [_ H]. lia. Qed.

(* the values of the items of a layout are in range *)
Definition tok_in_range (v : dt) (t : ltok) : Prop :=
  match t with
  | LDay => 1 <= dt_d v <= 31 | LMonth => 1 <= dt_m v <= 12 | LYear4 => 0 <= dt_y v <= 9999 | LYear2 => True
  | LHour => 0 <= dt_hh v <= 23 | LMinute => 0 <= dt_mm v <= 59 | LSecond => 0 <= dt_ss v <= 61 | _ => True
  end.

Lemma tok_canon v t : tok_in_range v t ->
  match t with
  | LDay => canon_ok 100 2 (dt_d v) = true | LMonth => canon_ok 109 2 (dt_m v) = true | LYear4 => canon_ok 89 4 (dt_y v) = true
  | LYear2 => canon_ok 121 2 (dt_y v mod 100) = true | LHour => canon_ok 72 2 (dt_hh v) = true | LMinute => canon_ok 77 2 (dt_mm v) = true
  | LSecond => canon_ok 83 2 (dt_ss v) = true | _ => True
  end.
Proof.
  intros H. destruct t; cbn [tok_in_range] in H; try exact I.
  - pose proof canon_day as C. rewrite forallb_forall in C. apply C. apply zrange_In. lia.
  - pose proof canon_month as C. rewrite forallb_forall in C. apply C. apply zrange_In. lia.
  - pose proof canon_year4 as C. rewrite forallb_forall in C. apply C. apply zrange_In. lia.
  - pose proof canon_year2 as C. rewrite forallb_forall in C. apply C. apply zrange_In.
    pose proof (Z.mod_pos_bound (dt_y v) 100 ltac:(lia)). lia.
  - pose proof canon_hour as C. rewrite forallb_forall in C. apply C. apply zrange_In. lia.
  - pose proof canon_minute as C. rewrite forallb_forall in C. apply C. apply zrange_In. lia.
  - pose proof canon_second as C. rewrite forallb_forall in C. apply C. apply zrange_In. lia.
Qed.

(* ---------- the whole layout *)
Theorem canonical_text_is_segmented l v : forall rest acc, forallb lit_plain l = true -> Forall (tok_in_range v) l ->
  sp_match (map fitem_of l) (layout_render l v ++ rest) acc = Some (acc ++ layout_groups l v, rest).
Proof.
  induction l as [|t l IH]; intros rest acc Hp Hr.
  - cbn. rewrite app_nil_r. reflexivity.
  - cbn [forallb] in Hp. apply andb_true_iff in Hp as [Ht Hl]. inversion Hr as [|? ? Rt Rl]; subst.
    unfold layout_render, layout_groups. cbn [flat_map map]. fold (layout_render l v). fold (layout_groups l v).
    rewrite <- app_assoc.
    pose proof (tok_canon v t Rt) as Ct.
    assert (forall d w x, canon_ok d w x = true ->
            sp_match (FDir d :: map fitem_of l) (zpad w x ++ layout_render l v ++ rest) acc
            = Some (acc ++ (d, x) :: layout_groups l v, rest)) as A.
    { intros d w x Hc. cbn [sp_match].
      apply (canon_step (fun m s' => sp_match (map fitem_of l) s' (acc ++ [(d, group_value m)])) d w x _ _ Hc).
      cbv beta. rewrite (canon_value d w x Hc). rewrite (IH rest (acc ++ [(d, x)]) Hl Rl). rewrite <- app_assoc. reflexivity. }
    destruct t; cbn [fitem_of ltok_render ltok_group app]; try (apply A; exact Ct).
    + cbn [sp_match]. rewrite N.eqb_refl. apply IH; assumption.
    + cbn [sp_match]. rewrite N.eqb_refl. apply IH; assumption.
Qed.

(* a canonically written value is accepted by the strptime model with exactly its item values, provided the date the
   items denote passes the calendar check *)
Theorem strptime_canonical l v : forallb lit_plain l = true -> Forall (tok_in_range v) l ->
  strptime (map fitem_of l) (layout_render l v) =
    let a := fold_left tm_step (layout_groups l v) tm0 in
    let check_year := match a_year a with Some y => y | None => if (a_month a =? 2) && (a_day a =? 29) then 1904 else 1900 end in
    if valid_date check_year (a_month a) (a_day a)
    then Some (VTime (match a_year a with Some y => y | None => 1900 end) (a_month a) (a_day a) (a_hour a) (a_min a) (a_sec a))
    else None.
Proof.
  intros Hp Hr. unfold strptime.
  pose proof (canonical_text_is_segmented l v [] [] Hp Hr) as S. rewrite app_nil_r in S. rewrite S. cbn [app]. reflexivity.
Qed.
