From Coq Require Import Lia.
From CP Require Import Model.Base Model.Fixed Spec.FixedSpec.

Lemma read_rest_sound ws : forall s acc r rest, Forall (fun w => 1 <= w) ws ->
  read_rest ws s acc = RwOk r rest ->
  exists tl, r = acc ++ tl /\ map (@length N) tl = ws /\ s = concat tl ++ rest.
Proof.
  induction ws as [|w ws IH]; intros s acc r rest Hw H; cbn [read_rest] in H.
  - inversion H; subst. exists []. rewrite app_nil_r. auto.
  - cbv zeta in H. destruct (Nat.eqb (length (firstn w s)) w) eqn:E; [|discriminate].
    apply Nat.eqb_eq in E. inversion Hw; subst.
    destruct (IH _ _ _ _ H3 H) as [tl [-> [Hm Hs]]].
    exists (firstn w s :: tl). rewrite <- app_assoc. split; [reflexivity|]. split.
    + cbn. congruence.
    + cbn. rewrite <- app_assoc, <- Hs. symmetry; apply firstn_skipn.
Qed.

Lemma read_rest_not_eof ws : forall s acc, read_rest ws s acc = RwEof -> False.
Proof. induction ws as [|w ws IH]; intros s acc H; cbn [read_rest] in H; [discriminate|].
  cbv zeta in H. destruct (Nat.eqb _ _); [eapply IH; eassumption|discriminate]. Qed.

(* the input the reader still has to see: pushed-back character first *)
Definition eff (pb : option N) (s : text) := match pb with None => s | Some c => c :: s end.

Lemma read_row_sound ws pb s r rest : Forall (fun w => 1 <= w) ws ->
  read_row ws pb s = RwOk r rest -> row_ok ws r /\ eff pb s = concat r ++ rest.
Proof.
  intros Hw H. destruct ws as [|w ws]; [discriminate|]. cbn [read_row] in H.
  destruct (take_item pb w s) as [item s1] eqn:T.
  destruct item as [|c item']; [discriminate|].
  destruct (Nat.eqb (length (c :: item')) w) eqn:E; [|discriminate]. apply Nat.eqb_eq in E.
  assert (Hws : Forall (fun w => 1 <= w) ws) by (inversion Hw; assumption).
  destruct (read_rest_sound _ _ _ _ _ Hws H) as [tl [Hr [Hm Hs]]].
  split.
  - unfold row_ok. rewrite Hr. cbn [app map]. rewrite Hm, E. reflexivity.
  - assert (G : concat r ++ rest = (c :: item') ++ s1).
    { rewrite Hr, Hs. cbn [app concat]. rewrite <- app_assoc. reflexivity. }
    rewrite G. clear G.
    destruct pb as [p|]; cbn [take_item eff] in *.
    + injection T as T1 T2 T3. rewrite <- T1, <- T2, <- T3. cbn [app]. f_equal. symmetry. apply firstn_skipn.
    + injection T as T1 T2. rewrite <- T1, <- T2. symmetry. apply firstn_skipn.
Qed.

Lemma skip_more_sound d s pb s2 : skip_delim d s = SkMore pb s2 ->
  exists x, permitted d x /\ s = x ++ eff pb s2.
Proof.
  destruct d; cbn [skip_delim]; intros H.
  - inversion H; subst. exists []. cbn. auto.
  - destruct s as [|a r]; [discriminate|]. destruct (N.eqb a LF) eqn:E; [|discriminate].
    apply N.eqb_eq in E; subst. inversion H; subst. exists [LF]; cbn; auto.
  - destruct s as [|a r]; [discriminate|]. destruct (N.eqb a CR) eqn:E; [|discriminate].
    apply N.eqb_eq in E; subst. inversion H; subst. exists [CR]; cbn; auto.
  - destruct s as [|a [|b r]]; try discriminate.
    destruct (N.eqb a CR && N.eqb b LF)%bool eqn:E; [|discriminate].
    apply andb_true_iff in E as [E1 E2]. apply N.eqb_eq in E1, E2; subst. inversion H; subst.
    exists [CR; LF]; cbn; auto.
  - destruct s as [|a r]; [discriminate|]. destruct (N.eqb a CR) eqn:E.
    + apply N.eqb_eq in E; subst. destruct r as [|b r']; [discriminate|].
      destruct (N.eqb b LF) eqn:E2; inversion H; subst.
      * apply N.eqb_eq in E2; subst. exists [CR; LF]; cbn; auto.
      * exists [CR]; cbn; auto.
    + destruct (N.eqb a LF) eqn:E2; [|discriminate]. apply N.eqb_eq in E2; subst.
      inversion H; subst. exists [LF]; cbn; auto.
Qed.

Lemma skip_end_sound d s : skip_delim d s = SkEnd -> s = [] \/ (d = LdAny /\ s = [CR]).
Proof.
  destruct d; cbn [skip_delim]; intros H; try discriminate.
  - destruct s as [|a r]; auto. destruct (N.eqb a LF); discriminate.
  - destruct s as [|a r]; auto. destruct (N.eqb a CR); discriminate.
  - destruct s as [|a [|b r]]; auto; try discriminate. destruct (N.eqb a CR && N.eqb b LF)%bool; discriminate.
  - destruct s as [|a r]; auto. destruct (N.eqb a CR) eqn:E.
    + apply N.eqb_eq in E; subst. destruct r as [|b r']; auto. destruct (N.eqb b LF); discriminate.
    + destruct (N.eqb a LF); discriminate.
Qed.

Lemma delims_ok_snoc d rd r x : Forall (fun p => permitted d (snd p)) rd ->
  (permitted d x \/ x = []) -> delims_ok d (rd ++ [(r, x)]).
Proof.
  intros HF Hx. induction rd as [|[r0 x0] t IH]; cbn.
  - constructor; assumption.
  - inversion HF; subst. specialize (IH H2). destruct t as [|p t']; cbn in *.
    + constructor; [assumption|constructor; assumption].
    + constructor; assumption.
Qed.
Lemma render_app a b : render (a ++ b) = render a ++ render b.
Proof. induction a as [|[r x] t IH]; cbn; [reflexivity|]. rewrite IH, !app_assoc. reflexivity. Qed.

(* main invariant: everything consumed so far is rendered by rd with all delimiters permitted *)
Lemma loop_sound d ws : Forall (fun w => 1 <= w) ws -> ws <> [] -> forall fuel pb s acc rows (rd : list (row * text)) pre,
  loop fuel d ws pb s acc = Some (rows, true) ->
  map fst rd = acc -> Forall (fun p => permitted d (snd p)) rd -> Forall (row_ok ws) acc ->
  pre = render rd ->
  exists rd', map fst rd' = rows /\ delims_ok d rd' /\ Forall (row_ok ws) rows /\ pre ++ eff pb s = render rd'.
Proof.
  intros Hw Hw0. induction fuel as [|f IH]; intros pb s acc rows rd pre H Hacc Hperm Hrows Hpre; [discriminate|].
  cbn [loop] in H. destruct (read_row ws pb s) as [| |r s1] eqn:R.
  - inversion H; subst.
    assert (eff pb s = []) as H0.
    { destruct ws as [|w ws']; [congruence|]. cbn [read_row] in R.
      destruct (take_item pb w s) as [item s1] eqn:T. destruct item as [|c item'].
      - destruct pb as [p|]; cbn [take_item] in T; [inversion T|]. injection T as T1 _.
        assert (1 <= w) by (inversion Hw; assumption).
        destruct s as [|a s']; [reflexivity|]. destruct w; [lia|]. discriminate.
      - destruct (Nat.eqb (length (c :: item')) w); [|discriminate].
        exfalso. eapply read_rest_not_eof; eassumption. }
    exists rd. rewrite H0, app_nil_r. repeat split; auto.
    clear -Hperm. induction rd as [|[r x] t IHt]; [constructor|]. inversion Hperm; subst.
    destruct t; [constructor; auto|constructor; auto].
  - discriminate.
  - destruct (read_row_sound _ _ _ _ _ Hw R) as [Hrow Heff].
    destruct (skip_delim d s1) as [| |pb' s2] eqn:K.
    + discriminate.
    + inversion H; subst. destruct (skip_end_sound _ _ K) as [->|[-> ->]].
      * exists (rd ++ [(r, [])]). rewrite map_app, render_app. cbn. rewrite ?app_nil_r in *.
        repeat split; auto.
        -- apply delims_ok_snoc; [assumption|right; reflexivity].
        -- apply Forall_app; auto.
        -- rewrite Heff. reflexivity.
      * exists (rd ++ [(r, [CR])]). rewrite map_app, render_app. cbn. rewrite ?app_nil_r in *.
        repeat split; auto.
        -- apply delims_ok_snoc; [assumption|left; cbn; auto].
        -- apply Forall_app; auto.
        -- rewrite Heff. reflexivity.
    + destruct (skip_more_sound _ _ _ _ K) as [x [Hx Hs1]].
      destruct (IH pb' s2 (acc ++ [r]) rows (rd ++ [(r, x)]) (pre ++ concat r ++ x) H) as [rd' [A [B [C D]]]].
      * rewrite map_app. cbn. congruence.
      * apply Forall_app; split; auto.
      * apply Forall_app; auto.
      * rewrite render_app. cbn. rewrite app_nil_r. congruence.
      * exists rd'. repeat split; auto. rewrite <- D, Heff, Hs1. rewrite <- !app_assoc. reflexivity.
Qed.

Theorem fixed_sound_lemma d ws s rows : Forall (fun w => 1 <= w) ws -> ws <> [] ->
  fixed_rows d ws s = Some (rows, true) -> well_formed d ws s rows.
Proof.
  intros Hw Hw0 H. unfold fixed_rows in H.
  destruct (loop_sound d ws Hw Hw0 _ None s [] rows [] [] H eq_refl ltac:(constructor) ltac:(constructor) eq_refl)
    as [rd [A [B [C D]]]].
  split; auto. exists rd. auto.
Qed.
