From CP Require Import Model.Base Model.Delimited.

(* a dialect under which written data can be read back: the special characters are pairwise distinct
   and none of them is a line break; without an escape character quotes are doubled *)
Definition wf_dialect (d : dialect) : Prop :=
  delim d <> quote d /\ delim d <> CR /\ delim d <> LF /\ quote d <> CR /\ quote d <> LF /\
  match esc d with
  | Some e => dbl d = false /\ e <> delim d /\ e <> quote d /\ e <> CR /\ e <> LF
  | None => dbl d = true
  end.
