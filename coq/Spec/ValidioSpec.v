(* Declarative vocabulary for the Validio family (C04-C08, C14, C20). *)
From CP Require Import Model.Base Model.Ranges Model.Fields Model.Validio.

Section Spec.
  Context {CS : Type}.

  (* every cell is accepted by the field in the same position *)
  Definition cell_ok (fmt : dfmt) (f : field) (cell : text) : Prop := v_ok (validated fmt f cell) = true.

  (* i is the first offending column *)
  Definition first_bad (fmt : dfmt) (fs : list field) (row : list text) (i : nat) : Prop :=
    (exists f cell, nth_error fs i = Some f /\ nth_error row i = Some cell /\ v_ok (validated fmt f cell) = false) /\
    (forall j f cell, j < i -> nth_error fs j = Some f -> nth_error row j = Some cell -> v_ok (validated fmt f cell) = true).

  (* every row check passes, consulted in declaration order on the states left by its predecessors *)
  Inductive checks_pass (row : list text) (l : loc) : list (@check CS) -> list CS -> Prop :=
  | cp_nil : forall sts, checks_pass row l [] sts
  | cp_nost : forall cks, checks_pass row l cks []
  | cp_cons : forall ck cks st sts,
      snd (ck_row ck st row l) = None -> checks_pass row l cks sts -> checks_pass row l (ck :: cks) (st :: sts).

  Definition is_row (o : out) : bool := match o with ORow _ => true | OErr _ => false end.

  (* prefix of outputs before the first error *)
  Fixpoint rows_before_error (os : list out) : list out :=
    match os with
    | ORow r :: t => ORow r :: rows_before_error t
    | _ => []
    end.
  Fixpoint first_error (os : list out) : option err :=
    match os with
    | ORow _ :: t => first_error t
    | OErr e :: _ => Some e
    | [] => None
    end.

  (* What on_error='yield' must produce, written without the reader's location cursor and counters:
     the k-th raw row (1-based, header rows counted) is skipped when k <= header, passed through
     unvalidated when k is beyond the limit, and otherwise judged at location (row k, first cell). *)
  Fixpoint yield_spec (c : cid CS) (limit : option nat) (k : nat) (sts : list CS) (raws : list (list text)) : list out :=
    match raws with
    | [] => []
    | row :: rest =>
        if Nat.ltb (c_header c) k then
          if before_limit limit k then
            match validate_row c sts {| l_line := k - 1; l_cell := 0 |} row with
            | (sts', None, _, _) => ORow row :: yield_spec c limit (S k) sts' rest
            | (sts', Some e, _, _) => OErr e :: yield_spec c limit (S k) sts' rest
            end
          else ORow row :: yield_spec c limit (S k) sts rest
        else yield_spec c limit (S k) sts rest
    end.

  (* rows that are neither validated nor dropped: beyond the header, returned unchanged *)
  Fixpoint passthrough (c : cid CS) (j : nat) (raws : list (list text)) : list out :=
    match raws with
    | [] => []
    | row :: rest => if Nat.ltb (c_header c) j then ORow row :: passthrough c (S j) rest else passthrough c (S j) rest
    end.

  Fixpoint count_rows (os : list out) : nat := match os with [] => 0 | ORow _ :: t => S (count_rows t) | OErr _ :: t => count_rows t end.
  Fixpoint count_errs (os : list out) : nat := match os with [] => 0 | OErr _ :: t => S (count_errs t) | ORow _ :: t => count_errs t end.
End Spec.
