(* C19: what a generated column must satisfy.  Capacities of the dialects' integer types. *)
From Coq Require Import String.
From CP Require Import Model.Base Model.Sql.
Local Open Scope Z_scope.

(* can a column of type [ty] (with printed or internal length [len]) store the integer v? *)
Definition fits (ty : text) (len : option Z) (v : Z) : bool :=
  if text_eqb ty (txt "tinyint") then (0 <=? v) && (v <=? 255)                       (* unsigned *)
  else if text_eqb ty (txt "smallint") then (-32768 <=? v) && (v <=? 32767)
  else if text_eqb ty (txt "int") || text_eqb ty (txt "integer") then (-2147483648 <=? v) && (v <=? 2147483647)
  else if text_eqb ty (txt "bigint") then (-9223372036854775808 <=? v) && (v <=? 9223372036854775807)
  else if text_eqb ty (txt "decimal") || text_eqb ty (txt "number") then
    match len with Some p => Z.abs v <? 10 ^ p | None => false end
  else false.

(* the type and (internal) length the dialect chooses for an Integer field with range lo...hi *)
Definition int_column_type (d : dialect) (lo hi : Z) : text * option Z :=
  let '(ty, len, _) := sql_type d (ansi_type (SInteger lo hi)) in (ty, len).

Definition int_fits_at (d : dialect) (lo hi : Z) : bool :=
  let '(ty, len) := int_column_type d lo hi in fits ty len lo && fits ty len hi.
