(* C15: a family of ODF encoders.  Every optional encoding feature of the property text is a switch:
   runs of equal cells / equal rows compressed with repeat counts, blanks as text:s (with or without an explicit
   count of 1), tabs as text:tab, line breaks as text:line-break or as paragraph boundaries, text wrapped in spans. *)
From CP Require Import Model.Base Model.Lex Model.FieldTypes Model.Ods Spec.FieldSpec.
Local Open Scope Z_scope.

Record style := {
  st_para : bool;        (* a line break ends the paragraph (true) / is a text:line-break element (false) *)
  st_s : bool;           (* runs of blanks as text:s *)
  st_one : bool;         (* write the count 1 explicitly *)
  st_tab : bool;         (* tabs as text:tab *)
  st_span : bool;        (* wrap the content of every paragraph in a text:span *)
  st_cells : bool;       (* compress runs of equal cells *)
  st_rows : bool         (* compress runs of equal rows *)
}.

(* maximal runs *)
Fixpoint rle {A} (eqb : A -> A -> bool) (l : list A) : list (A * nat) :=
  match l with
  | [] => []
  | x :: r => match rle eqb r with
              | (y, n) :: t => if eqb x y then (y, S n) :: t else (x, 1%nat) :: (y, n) :: t
              | [] => [(x, 1%nat)]
              end
  end.
Definition runs {A} (compress : bool) (eqb : A -> A -> bool) (l : list A) : list (A * nat) :=
  if compress then rle eqb l else map (fun x => (x, 1%nat)) l.

Definition attr (st : style) (n : nat) : option text :=
  if Nat.eqb n 1 && negb (st_one st) then None else Some (int_text (Z.of_nat n)).

(* one run of equal characters inside a paragraph *)
Definition enc_run (st : style) (p : N * nat) : list inl :=
  let '(c, n) := p in
  if N.eqb c SP && st_s st then [IS (attr st n)]
  else if N.eqb c 9 && st_tab st then repeat ITab n
  else if N.eqb c LF then repeat IBreak n
  else [IText (repeat c n)].
Definition enc_para (st : style) (line : text) : list inl :=
  let body := flat_map (enc_run st) (rle N.eqb line) in
  if st_span st then [ISpan body] else body.

(* text.split("\n") *)
Fixpoint split_lf (s : text) : list text :=
  match s with
  | [] => [[]]
  | c :: r => if N.eqb c LF then [] :: split_lf r
              else match split_lf r with
                   | l :: ls => (c :: l) :: ls
                   | [] => [[c]]
                   end
  end.
Definition enc_text (st : style) (v : text) : list (list inl) :=
  if st_para st then map (enc_para st) (split_lf v) else [enc_para st v].

Definition enc_row (st : style) (row : list text) : list ocell :=
  map (fun p => {| oc_rep := attr st (snd p); oc_paras := enc_text st (fst p) |}) (runs (st_cells st) text_eqb row).
Definition enc_table (st : style) (t : list (list text)) : otable :=
  map (fun p => {| or_rep := attr st (snd p); or_cells := enc_row st (fst p) |}) (runs (st_rows st) (list_eqb text_eqb) t).
