(* Declarative vocabulary for the field type theorems (C02): how numbers are written, what a regular expression
   and a glob match, what a calendar date is.  No reference to the code's control structure. *)
From CP Require Import Model.Base Model.FieldTypes.
Local Open Scope Z_scope.

(* ---------- str(v): decimal digits, most significant first, '-' for negative numbers *)
Fixpoint nat_text_fuel (fuel : nat) (n : Z) (acc : text) : text :=
  match fuel with
  | O => acc
  | S f => let acc' := Z.to_N (48 + n mod 10) :: acc in
           if n <? 10 then acc' else nat_text_fuel f (n / 10) acc'
  end.
Definition nat_text (n : Z) : text := nat_text_fuel (S (Z.to_nat (Z.log2 n))) n [].
Definition int_text (v : Z) : text := if v <? 0 then 45%N :: nat_text (- v) else nat_text v.

(* ---------- regular expressions: the language of an expression (case-insensitive on ASCII letters) *)
Inductive matches : re -> text -> Prop :=
| MEps : matches REps []
| MChr c x : chr_match c x = true -> matches (RChr c) [x]
| MAny d x : any_match d x = true -> matches (RAny d) [x]
| MSet neg rs x : xorb neg (set_has rs x) = true -> matches (RSet neg rs) [x]
| MSeq a b s t : matches a s -> matches b t -> matches (RSeq a b) (s ++ t)
| MAltL a b s : matches a s -> matches (RAlt a b) s
| MAltR a b s : matches b s -> matches (RAlt a b) s
| MStar0 a : matches (RStar a) []
| MStarS a s t : matches a s -> matches (RStar a) t -> matches (RStar a) (s ++ t).

(* ---------- globs: '*' any text, '?' any one character, [set] one character of the set, anything else itself *)
Inductive gmatches : glob -> text -> Prop :=
| GMNil : gmatches [] []
| GMChr c x g s : chr_match c x = true -> gmatches g s -> gmatches (GChr c :: g) (x :: s)
| GMOne x g s : gmatches g s -> gmatches (GOne :: g) (x :: s)
| GMSet neg rs x g s : xorb neg (set_has rs x) = true -> gmatches g s -> gmatches (GSet neg rs :: g) (x :: s)
| GMStar w g s : gmatches g s -> gmatches (GStar :: g) (w ++ s).

(* ---------- calendar *)
Definition leap_year (y : Z) : Prop := (y mod 4 = 0 /\ y mod 100 <> 0) \/ y mod 400 = 0.
Definition month_length (y m : Z) : Z :=
  match m with
  | 2 => if is_leap y then 29 else 28
  | 4 | 6 | 9 | 11 => 30
  | _ => 31
  end.
Definition real_date (y m d : Z) : Prop := 1 <= y <= 9999 /\ 1 <= m <= 12 /\ 1 <= d <= month_length y m.
Definition real_time (hh mm ss : Z) : Prop := 0 <= hh <= 23 /\ 0 <= mm <= 59 /\ 0 <= ss <= 61.

(* ---------- date/time layouts: a sequence of items and literal characters *)
Inductive ltok := LDay | LMonth | LYear4 | LYear2 | LHour | LMinute | LSecond | LPercent | LLit (c : N).
Definition ltok_text (t : ltok) : text :=
  match t with
  | LDay => [68; 68] | LMonth => [77; 77] | LYear4 => [89; 89; 89; 89] | LYear2 => [89; 89]
  | LHour => [104; 104] | LMinute => [109; 109] | LSecond => [115; 115] | LPercent => [37] | LLit c => [c]
  end%N.
(* the strptime directive each item stands for *)
Definition ltok_directive (t : ltok) : text :=
  match t with
  | LDay => [37; 100] | LMonth => [37; 109] | LYear4 => [37; 89] | LYear2 => [37; 121]
  | LHour => [37; 72] | LMinute => [37; 77] | LSecond => [37; 83] | LPercent => [37; 37] | LLit c => [c]
  end%N.
Definition layout_text (l : list ltok) : text := flat_map ltok_text l.
Definition layout_directives (l : list ltok) : text := flat_map ltok_directive l.
(* literal characters are none of the letters the items are made of; two year items never touch (YYYYYY is ambiguous) *)
Definition lit_ok (c : N) : bool := forallb (fun k => negb (N.eqb k c)) [37; 68; 77; 89; 104; 109; 115]%N.
Definition is_year (t : ltok) : bool := match t with LYear4 | LYear2 => true | _ => false end.
Fixpoint layout_ok (l : list ltok) : bool :=
  match l with
  | [] => true
  | t :: rest =>
      (match t with LLit c => lit_ok c | _ => true end)
      && (match rest with t2 :: _ => negb (is_year t && is_year t2) | [] => true end)
      && layout_ok rest
  end.

(* ---------- canonically written dates: every item zero padded to its width *)
Definition zpad (w : nat) (n : Z) : text := let t := nat_text n in repeat 48%N (w - length t) ++ t.
Record dt := { dt_y : Z; dt_m : Z; dt_d : Z; dt_hh : Z; dt_mm : Z; dt_ss : Z }.
Definition ltok_render (v : dt) (t : ltok) : text :=
  match t with
  | LDay => zpad 2 (dt_d v) | LMonth => zpad 2 (dt_m v) | LYear4 => zpad 4 (dt_y v) | LYear2 => zpad 2 (dt_y v mod 100)
  | LHour => zpad 2 (dt_hh v) | LMinute => zpad 2 (dt_mm v) | LSecond => zpad 2 (dt_ss v) | LPercent => [37%N] | LLit c => [c]
  end.
Definition layout_render (l : list ltok) (v : dt) : text := flat_map (ltok_render v) l.
(* the strptime group each item fills: directive letter and value *)
Definition ltok_group (v : dt) (t : ltok) : list (N * Z) :=
  match t with
  | LDay => [(100%N, dt_d v)] | LMonth => [(109%N, dt_m v)] | LYear4 => [(89%N, dt_y v)] | LYear2 => [(121%N, dt_y v mod 100)]
  | LHour => [(72%N, dt_hh v)] | LMinute => [(77%N, dt_mm v)] | LSecond => [(83%N, dt_ss v)] | _ => []
  end.
Definition layout_groups (l : list ltok) (v : dt) : list (N * Z) := flat_map (ltok_group v) l.
