(* What C13 demands of fixed-width reading, independent of the reader's control structure. *)
From CP Require Import Model.Base Model.Fixed.

(* delimiters the setting permits between two records *)
Definition permitted (d : ld) (x : text) : Prop :=
  match d with
  | LdNone => x = []
  | LdLF => x = [LF] | LdCR => x = [CR] | LdCRLF => x = [CR; LF]
  | LdAny => x = [LF] \/ x = [CR] \/ x = [CR; LF]
  end.

(* a file: records, each with the delimiter that followed it *)
Fixpoint render (rd : list (row * text)) : text :=
  match rd with [] => [] | (r, dl) :: t => concat r ++ dl ++ render t end.

(* aligned: every item has exactly its declared width *)
Definition row_ok (ws : list nat) (r : row) := map (@length N) r = ws.

(* every delimiter is permitted; only the final one may be missing *)
Inductive delims_ok (d : ld) : list (row * text) -> Prop :=
| dok_nil : delims_ok d []
| dok_last r x : (permitted d x \/ x = []) -> delims_ok d [(r, x)]
| dok_cons r x p t : permitted d x -> delims_ok d (p :: t) -> delims_ok d ((r, x) :: p :: t).

(* [s] is a well-formed fixed-width file for widths [ws] under setting [d] holding [rows] *)
Definition well_formed (d : ld) (ws : list nat) (s : text) (rows : list row) : Prop :=
  Forall (row_ok ws) rows /\ exists rd, map fst rd = rows /\ delims_ok d rd /\ s = render rd.

(* under "any", CR LF is one delimiter: a record that starts with LF cannot follow a bare CR *)
Fixpoint greedy (rd : list (row * text)) : Prop :=
  match rd with
  | (_, x) :: (((r2, _) :: _) as t) =>
      (x = [CR] -> match concat r2 with c :: _ => c <> LF | [] => True end) /\ greedy t
  | _ => True
  end.
