#!/bin/sh
# usage: tools/verify_seed.sh <Cxx> [name]  -- confirm a seeded change produced in /tmp/wt/<Cxx> (patch in /tmp/seed/<Cxx>):
#   stable baseline still passes with the change; demo fails with it and passes without it; then store it under seeded/<name>/
id=$1; name=${2:-$1}; wt=/tmp/wt/$id; sd=/tmp/seed/$id
here=$(cd "$(dirname "$0")/.." && pwd)
[ -f $sd/patch.diff ] || { echo "no patch"; exit 2; }
git -C $wt checkout -q -- . ; git -C $wt clean -fdq
git -C $wt apply $sd/patch.diff || { echo "patch does not apply"; exit 2; }
base=$(python3 $here/tools/baseline.py $wt | head -1)
PYTHONPATH=$wt /venv/bin/python $sd/demo.py > /tmp/seed/$id.with.log 2>&1; with=$?
git -C $wt checkout -q -- .
PYTHONPATH=$wt /venv/bin/python $sd/demo.py > /tmp/seed/$id.without.log 2>&1; without=$?
echo "$id: $base | demo with change exit=$with, without exit=$without"
case "$base" in *"218/218"*) ;; *) echo "REJECT: baseline regressed"; exit 1;; esac
[ $with -ne 0 ] && [ $without -eq 0 ] || { echo "REJECT: demo does not discriminate"; exit 1; }
mkdir -p $here/seeded/$name && cp $sd/patch.diff $sd/demo.py $here/seeded/$name/
python3 - "$sd/meta.json" "$here/seeded/$name/meta.json" "$base" "$with" "$without" <<'PY'
import json,sys
src,dst,base,w,wo=sys.argv[1:6]
try: m=json.load(open(src))
except Exception: m={}
m["confirmed"]={"baseline_with_change":base,"demo_exit_with_change":int(w),"demo_exit_without_change":int(wo),
 "how":"tools/verify_seed.sh: patch applied in a scratch worktree of /repo HEAD, tools/baseline.py run there (all 218 stable tests must pass), demo.py run with PYTHONPATH=<worktree> with and without the patch"}
json.dump(m,open(dst,"w"),indent=1)
PY
echo "stored seeded/$name"
