#!/usr/bin/env python3
"""Fail-closed translator from cutplace's Python source to Gallina.

Reads /repo/cutplace/*.py with `ast` and regenerates coq/Generated/*.v: every constant table and
data-like decision structure the property theorems depend on.  Only a whitelist of syntactic
shapes is understood; anything else found in a place this translator is asked to read raises
TranslationError (exit 2) instead of being guessed.  Files are rewritten only when their content
changes so that `make` stays incremental.
"""
import argparse
import ast
import os
import sys


class TranslationError(Exception):
    pass


def fail(node, why):
    where = "line %s" % getattr(node, "lineno", "?")
    raise TranslationError("%s: %s: %s" % (where, why, ast.unparse(node)[:120] if isinstance(node, ast.AST) else node))


# ------------------------------------------------------------------ Gallina printers


def g_text(s):
    assert isinstance(s, str)
    return "[]" if s == "" else "[" + ";".join(str(ord(c)) for c in s) + "]%N"


def g_z(v):
    assert isinstance(v, int) and not isinstance(v, bool)
    return "(%d)%%Z" % v


def g_list(xs, f):
    return "[" + "; ".join(f(x) for x in xs) + "]"


def g_bool(b):
    return "true" if b else "false"


# ------------------------------------------------------------------ literal evaluator


class Consts:
    """Module-level constants evaluated from a whitelist of literal-like expressions."""

    def __init__(self, path, preset=None):
        self.path = path
        self.tree = ast.parse(open(path, encoding="utf-8").read())
        self.env = dict(preset or {})
        for st in self.tree.body:
            if isinstance(st, ast.Assign) and len(st.targets) == 1 and isinstance(st.targets[0], ast.Name):
                try:
                    self.env[st.targets[0].id] = self.ev(st.value)
                except TranslationError:
                    pass

    def ev(self, n):
        if isinstance(n, ast.Constant) and isinstance(n.value, (int, str, type(None), bool)):
            return n.value
        if isinstance(n, ast.UnaryOp) and isinstance(n.op, ast.USub):
            return -self.ev(n.operand)
        if isinstance(n, ast.BinOp):
            a, b = self.ev(n.left), self.ev(n.right)
            if isinstance(n.op, ast.Pow) and isinstance(a, int) and isinstance(b, int) and 0 <= b <= 64:
                return a**b
            if isinstance(n.op, ast.Sub):
                return a - b
            if isinstance(n.op, ast.Add):
                return a + b
            if isinstance(n.op, ast.Mod) and isinstance(a, str):
                return a % (tuple(b) if isinstance(b, list) else b)
            fail(n, "operator not whitelisted")
        if isinstance(n, (ast.Tuple, ast.List)):
            return [self.ev(e) for e in n.elts]
        if isinstance(n, ast.Dict):
            return {self.ev(k): self.ev(v) for k, v in zip(n.keys, n.values)}
        if isinstance(n, ast.Call) and isinstance(n.func, ast.Name) and n.func.id in ("sorted", "set") and len(n.args) == 1 and not n.keywords:
            return sorted(self.ev(n.args[0]))
        if isinstance(n, ast.Call) and isinstance(n.func, ast.Name) and n.func.id == "len" and len(n.args) == 1:
            return len(self.ev(n.args[0]))
        if isinstance(n, ast.Call) and isinstance(n.func, ast.Attribute) and n.func.attr == "keys" and not n.args:
            d = self.ev(n.func.value)
            if isinstance(d, dict):
                return list(d.keys())
            fail(n, ".keys() of a non-dict")
        if isinstance(n, ast.Name) and n.id in self.env:
            return self.env[n.id]
        if isinstance(n, ast.Attribute) and isinstance(n.value, ast.Name) and n.value.id == "csv" and n.attr in ("QUOTE_ALL", "QUOTE_MINIMAL"):
            return "csv." + n.attr
        fail(n, "expression not whitelisted")

    def get(self, name):
        if name not in self.env:
            raise TranslationError("%s: constant %s not found or not a whitelisted literal" % (self.path, name))
        return self.env[name]

    def cls(self, name):
        for st in self.tree.body:
            if isinstance(st, ast.ClassDef) and st.name == name:
                return st
        raise TranslationError("%s: class %s not found" % (self.path, name))

    def func(self, name, body=None):
        for st in body if body is not None else self.tree.body:
            if isinstance(st, ast.FunctionDef) and st.name == name:
                return st
        raise TranslationError("%s: function %s not found" % (self.path, name))


# ------------------------------------------------------------------ integer expressions / conditions


CMP = {ast.LtE: "Z.leb", ast.Lt: "Z.ltb", ast.GtE: "Z.geb", ast.Gt: "Z.gtb", ast.Eq: "Z.eqb"}
CMP_NAME = {ast.LtE: "CLe", ast.Lt: "CLt", ast.GtE: "CGe", ast.Gt: "CGt", ast.Eq: "CEq"}


def z_expr(n, consts, var):
    """integer expression over one variable"""
    if isinstance(n, ast.Name):
        if n.id == var:
            return var
        v = consts.get(n.id)
        if isinstance(v, int):
            return g_z(v)
        fail(n, "name is not the variable or an int constant")
    if isinstance(n, ast.Constant) and isinstance(n.value, int) and not isinstance(n.value, bool):
        return g_z(n.value)
    if isinstance(n, ast.UnaryOp) and isinstance(n.op, ast.USub):
        return "(- %s)%%Z" % z_expr(n.operand, consts, var)
    if isinstance(n, ast.BinOp) and isinstance(n.op, (ast.Add, ast.Sub)):
        return "(%s %s %s)%%Z" % (z_expr(n.left, consts, var), "+" if isinstance(n.op, ast.Add) else "-", z_expr(n.right, consts, var))
    fail(n, "integer expression not whitelisted")


def z_cond(n, consts, var):
    if isinstance(n, ast.Compare) and len(n.ops) == 1 and type(n.ops[0]) in CMP:
        return "(%s %s %s)" % (CMP[type(n.ops[0])], z_expr(n.left, consts, var), z_expr(n.comparators[0], consts, var))
    fail(n, "condition not whitelisted")


def simple_if_function(fn, consts):
    """def f(x): [docstring] [assert...] if C: result = E1 else: result = E2; return result"""
    if len(fn.args.args) != 1:
        fail(fn, "expected one parameter")
    var = fn.args.args[0].arg
    body = [s for s in fn.body if not (isinstance(s, ast.Expr) and isinstance(s.value, ast.Constant)) and not isinstance(s, ast.Assert)]
    if len(body) != 2 or not isinstance(body[0], ast.If) or not isinstance(body[1], ast.Return):
        fail(fn, "expected `if ...: result = e1 else: result = e2; return result`")
    iff = body[0]

    def single_assign(stmts):
        if len(stmts) != 1 or not isinstance(stmts[0], ast.Assign) or not isinstance(stmts[0].targets[0], ast.Name):
            fail(iff, "branch must be one assignment")
        return stmts[0].targets[0].id, stmts[0].value

    n1, e1 = single_assign(iff.body)
    n2, e2 = single_assign(iff.orelse)
    if not (isinstance(body[1].value, ast.Name) and n1 == n2 == body[1].value.id):
        fail(fn, "branches must assign the returned variable")
    return var, "if %s then %s else %s" % (z_cond(iff.test, consts, var), z_expr(e1, consts, var), z_expr(e2, consts, var))


# ------------------------------------------------------------------ SQL ladders


MIRROR = {ast.Lt: ast.Gt, ast.Gt: ast.Lt, ast.LtE: ast.GtE, ast.GtE: ast.LtE, ast.Eq: ast.Eq, ast.NotEq: ast.NotEq}


def ladder_of(sql_type_fn, consts, start_var_names=("limit", "length")):
    """The `if ansi_type == "int":` part of a dialect's sql_type as a list of rungs
    (cmp, bound, or_none, type_name, arity) plus the else type (None = unchanged ANSI type)."""
    int_branch = None
    for st in ast.walk(sql_type_fn):
        if isinstance(st, ast.If) and isinstance(st.test, ast.Compare) and isinstance(st.test.left, ast.Name) and st.test.left.id == "ansi_type" and isinstance(st.test.comparators[0], ast.Constant) and st.test.comparators[0].value == "int":
            int_branch = st
    if int_branch is None:
        fail(sql_type_fn, "no `ansi_type == 'int'` branch")
    var = None
    chain = None
    for st in int_branch.body:
        if isinstance(st, ast.Assign) and isinstance(st.targets[0], ast.Name) and st.targets[0].id in start_var_names:
            if ast.unparse(st.value) != "sql_ansi_type[1]":
                fail(st, "limit must be sql_ansi_type[1]")
            var = st.targets[0].id
        elif isinstance(st, ast.Assert):
            continue
        elif isinstance(st, ast.If):
            if chain is not None:
                fail(st, "second if chain in int branch")
            chain = st
        else:
            fail(st, "unexpected statement in int branch")
    if var is None or chain is None:
        fail(int_branch, "int branch must read the limit and contain one if chain")
    rungs = []
    else_type = None
    node = chain
    while True:
        test = node.test
        or_none = False
        if isinstance(test, ast.BoolOp) and isinstance(test.op, ast.Or) and len(test.values) == 2 and ast.unparse(test.values[1]) == "%s is None" % var:
            test = test.values[0]
            or_none = True
        if isinstance(test, ast.Compare) and len(test.ops) == 1 and type(test.ops[0]) in MIRROR and isinstance(test.comparators[0], ast.Name) \
                and test.comparators[0].id == var and not (isinstance(test.left, ast.Name) and test.left.id == var):
            # `CONSTANT >= limit` is `limit <= CONSTANT` written the other way round
            test = ast.Compare(left=test.comparators[0], ops=[MIRROR[type(test.ops[0])]()], comparators=[test.left])
        if not (isinstance(test, ast.Compare) and len(test.ops) == 1 and type(test.ops[0]) in CMP_NAME and isinstance(test.left, ast.Name) and test.left.id == var):
            fail(node.test, "rung test must compare the limit with a constant")
        bound = consts.ev(test.comparators[0])
        if not isinstance(bound, int):
            fail(test, "bound must be an int constant")
        if len(node.body) != 1 or not isinstance(node.body[0], ast.Assign) or ast.unparse(node.body[0].targets[0]) != "result":
            fail(node, "rung body must be `result = (...)`")
        rungs.append((CMP_NAME[type(test.ops[0])], bound, or_none) + result_tuple(node.body[0].value, var))
        if len(node.orelse) == 0:
            break
        if len(node.orelse) == 1 and isinstance(node.orelse[0], ast.If):
            node = node.orelse[0]
            continue
        if len(node.orelse) == 1 and isinstance(node.orelse[0], ast.Assign) and ast.unparse(node.orelse[0].targets[0]) == "result":
            else_type = result_tuple(node.orelse[0].value, var)
            break
        fail(node, "else part must be another rung or `result = (...)`")
    return rungs, else_type


def result_tuple(n, var):
    """("typename", limit[, 0]) -> (typename, arity)"""
    if not (isinstance(n, ast.Tuple) and 2 <= len(n.elts) <= 3 and isinstance(n.elts[0], ast.Constant) and isinstance(n.elts[0].value, str)):
        fail(n, "result must be a tuple (name, limit[, 0])")
    if not (isinstance(n.elts[1], ast.Name) and n.elts[1].id == var):
        fail(n, "second item must be the limit")
    if len(n.elts) == 3 and not (isinstance(n.elts[2], ast.Constant) and n.elts[2].value == 0):
        fail(n, "third item must be 0")
    return (n.elts[0].value, len(n.elts))


def g_rung(r):
    cmp_, bound, or_none, name, arity = r
    return "(%s, %s, %s, %s, %d%%nat)" % (cmp_, g_z(bound), g_bool(or_none), g_text(name), arity)


# ------------------------------------------------------------------ per-module generators

HEADER = "(* GENERATED by tools/py2v.py from %s -- do not edit; regenerated on every run *)\nFrom CP Require Import Model.Base.\n"


def gen_consts(repo):
    out = [HEADER % "cutplace/errors.py, ranges.py, data.py, fields.py, interface.py, validio.py, rowio.py, applications.py"]
    err = Consts(os.path.join(repo, "cutplace/errors.py"))
    m = err.get("NAME_TO_ASCII_CODE_MAP")
    if not (isinstance(m, dict) and all(isinstance(k, str) and isinstance(v, int) for k, v in m.items())):
        raise TranslationError("NAME_TO_ASCII_CODE_MAP must map str to int")
    out.append("(* errors.NAME_TO_ASCII_CODE_MAP *)")
    out.append("Definition name_to_code : list (text * Z) := %s." % g_list(sorted(m.items()), lambda kv: "(%s, %s)" % (g_text(kv[0]), g_z(kv[1]))))

    rng = Consts(os.path.join(repo, "cutplace/ranges.py"))
    ell = rng.get("ELLIPSIS")
    if not (isinstance(ell, str) and len(ell) == 1):
        raise TranslationError("ELLIPSIS must be one character")
    out.append("(* ranges.py *)")
    out.append("Definition ELLIPSIS : N := %d%%N." % ord(ell))
    out.append("Definition MAX_INTEGER : Z := %s." % g_z(rng.get("MAX_INTEGER")))
    out.append("Definition MIN_INTEGER : Z := %s." % g_z(rng.get("MIN_INTEGER")))
    out.append("Definition DEFAULT_INTEGER_RANGE_TEXT : text := %s." % g_text(rng.get("DEFAULT_INTEGER_RANGE_TEXT")))
    out.append("Definition MAX_DECIMAL_TEXT : text := %s." % g_text(rng.get("MAX_DECIMAL_TEXT")))
    out.append("Definition DEFAULT_DECIMAL_RANGE_TEXT : text := %s." % g_text(rng.get("DEFAULT_DECIMAL_RANGE_TEXT")))
    out.append("Definition DEFAULT_PRECISION : Z := %s." % g_z(len(rng.get("MAX_DECIMAL_TEXT").split(".")[1])))
    out.append("Definition DEFAULT_SCALE : Z := %s." % g_z(len(rng.get("MAX_DECIMAL_TEXT")) - 1))

    dat = Consts(os.path.join(repo, "cutplace/data.py"))
    out.append("(* data.py *)")
    for name in ("_VALID_QUOTE_CHARACTERS", "_VALID_ESCAPE_CHARACTERS", "_VALID_DECIMAL_SEPARATORS", "_VALID_THOUSANDS_SEPARATORS", "_VALID_FORMATS", "_VALID_QUOTING"):
        v = dat.get(name)
        if not (isinstance(v, list) and all(isinstance(x, str) for x in v)):
            raise TranslationError("%s must be a list of str" % name)
        out.append("Definition %s : list text := %s." % (name.lstrip("_"), g_list(v, g_text)))
    ld = dat.get("LINE_DELIMITER_TO_TEXT_MAP")
    if not isinstance(ld, dict):
        raise TranslationError("LINE_DELIMITER_TO_TEXT_MAP must be a dict")
    out.append("(* LINE_DELIMITER_TO_TEXT_MAP as (CID text, internal value); None = no delimiter *)")
    out.append(
        "Definition LINE_DELIMITER_TEXTS : list (text * option text) := %s."
        % g_list(sorted(((v, k) for k, v in ld.items()), key=lambda p: p[0]), lambda p: "(%s, %s)" % (g_text(p[0]), "None" if p[1] is None else "Some " + g_text(p[1])))
    )
    for name in ("ANY", "FORMAT_DELIMITED", "FORMAT_EXCEL", "FORMAT_FIXED", "FORMAT_ODS"):
        out.append("Definition %s : text := %s." % (name, g_text(dat.get(name))))
    for name in [k for k in sorted(dat.env) if k.startswith("KEY_")]:
        out.append("Definition %s : text := %s." % (name, g_text(dat.get(name))))

    fld = Consts(os.path.join(repo, "cutplace/fields.py"))
    dt = fld.cls("DateTimeFieldFormat")
    cenv = {}
    for st in dt.body:
        if isinstance(st, ast.Assign) and isinstance(st.targets[0], ast.Name):
            try:
                cenv[st.targets[0].id] = Consts.ev(type("E", (), {"env": cenv, "ev": Consts.ev})(), st.value) if False else fld_ev(fld, cenv, st.value)
            except TranslationError:
                pass
    tuples = cenv.get("_HUMAN_READABLE_TO_STRPTIME_TUPLES")
    if not (isinstance(tuples, list) and all(isinstance(t, list) and len(t) == 2 and all(isinstance(x, str) for x in t) for t in tuples)):
        raise TranslationError("_HUMAN_READABLE_TO_STRPTIME_TUPLES must be a tuple of string pairs")
    out.append("(* fields.DateTimeFieldFormat *)")
    out.append("Definition HUMAN_READABLE_TO_STRPTIME : list (text * text) := %s." % g_list(tuples, lambda t: "(%s, %s)" % (g_text(t[0]), g_text(t[1]))))
    for name in ("_STRPTIME_TIME_DIRECTIVES", "_STRPTIME_DATE_DIRECTIVES"):
        out.append("Definition %s : list text := %s." % (name.lstrip("_"), g_list(cenv[name], g_text)))
    out.append("Definition NO_EXCEL_TIME : text := %s." % g_text(cenv["_NO_EXCEL_TIME"]))

    itf = Consts(os.path.join(repo, "cutplace/interface.py"))
    cid = itf.cls("Cid")
    ienv = {}
    for st in cid.body:
        if isinstance(st, ast.Assign) and isinstance(st.targets[0], ast.Name):
            try:
                ienv[st.targets[0].id] = fld_ev(itf, ienv, st.value)
            except TranslationError:
                pass
    out.append("(* interface.Cid *)")
    for name in ("_EMPTY_INDICATOR", "_ID_CHECK", "_ID_DATA_FORMAT", "_ID_FIELD_RULE"):
        if not isinstance(ienv.get(name), str):
            raise TranslationError("Cid.%s must be a str literal" % name)
        out.append("Definition %s : text := %s." % (name.lstrip("_"), g_text(ienv[name])))

    vio = Consts(os.path.join(repo, "cutplace/validio.py"))
    out.append("(* validio.py *)")
    out.append("Definition VALID_ON_ERROR_CHOICES : list text := %s." % g_list(vio.get("_VALID_ON_ERROR_CHOICES"), g_text))

    rio = Consts(os.path.join(repo, "cutplace/rowio.py"))
    out.append("(* rowio.py *)")
    out.append("Definition VALID_FIXED_ANY_LINE_DELIMITERS : list text := %s." % g_list(rio.get("_VALID_FIXED_ANY_LINE_DELIMITERS"), g_text))
    out.append("Definition MAX_ODS_REPEATED_COUNT : Z := %s." % g_z(rio.get("_MAX_ODS_REPEATED_COUNT")))

    app = Consts(os.path.join(repo, "cutplace/applications.py"))
    out.append("(* applications.py *)")
    out.append("Definition DEFAULT_VALIDATE_UNTIL : Z := %s." % g_z(app.get("DEFAULT_VALIDATE_UNTIL")))
    return "\n".join(out) + "\n"


def fld_ev(consts, cenv, node):
    saved = dict(consts.env)
    consts.env.update(cenv)
    try:
        return consts.ev(node)
    finally:
        consts.env.clear()
        consts.env.update(saved)


def gen_sql(repo):
    sql = Consts(os.path.join(repo, "cutplace/sql.py"))
    out = [HEADER % "cutplace/sql.py and IntegerFieldFormat.sql_ansi_type in cutplace/fields.py"]
    out.append("(* one rung of a dialect's `if limit <cmp> BOUND [or limit is None]: result = (name, limit[, 0])` *)")
    out.append("Definition rung := (cmp * Z * bool * text * nat)%type.")
    for name in ("MAX_TINYINT", "MAX_SMALLINT", "MAX_INTEGER", "MAX_BIGINT"):
        out.append("Definition SQL_%s : Z := %s." % (name, g_z(sql.get(name))))
    it = sql.get("_INT_TYPES")
    out.append("Definition INT_TYPES : list text := %s." % g_list(it, g_text))
    for cls, nm in (("TransactSqlDialect", "transact"), ("Db2SqlDialect", "db2"), ("PlSqlDialect", "plsql")):
        fn = sql.func("sql_type", sql.cls(cls).body)
        rungs, else_type = ladder_of(fn, sql)
        out.append("(* %s.sql_type, branch ansi_type == 'int' *)" % cls)
        out.append("Definition %s_rungs : list rung := %s." % (nm, g_list(rungs, g_rung)))
        out.append("Definition %s_else : option (text * nat) := %s." % (nm, "None" if else_type is None else "Some (%s, %d%%nat)" % (g_text(else_type[0]), else_type[1])))
    # keyword lists: __init__ assigns a list literal and stores set(list) in self._keywords
    for cls, nm in (("AnsiSqlDialect", "ansi"), ("TransactSqlDialect", "transact"), ("Db2SqlDialect", "db2"), ("PlSqlDialect", "plsql")):
        init = sql.func("__init__", sql.cls(cls).body)
        lists = {}
        stored = None
        for st in init.body:
            if isinstance(st, ast.Assign) and isinstance(st.targets[0], ast.Name) and isinstance(st.value, ast.List):
                lists[st.targets[0].id] = sql.ev(st.value)
            elif isinstance(st, ast.Assign) and ast.unparse(st.targets[0]) == "self._keywords":
                v = st.value
                if not (isinstance(v, ast.Call) and ast.unparse(v.func) == "set" and len(v.args) == 1 and isinstance(v.args[0], ast.Name)):
                    fail(st, "self._keywords must be set(<list variable>)")
                stored = v.args[0].id
            elif isinstance(st, ast.Expr) and isinstance(st.value, ast.Constant):
                continue
            else:
                fail(st, "unexpected statement in %s.__init__" % cls)
        if stored is None or stored not in lists or not all(isinstance(k, str) for k in lists[stored]):
            fail(init, "keyword list not found")
        out.append("Definition %s_keywords : list text := %s." % (nm, g_list(sorted(set(lists[stored])), g_text)))
    # is_keyword: word.lower() in self.keywords, not overridden
    ik = sql.func("is_keyword", sql.cls("AnsiSqlDialect").body)
    rets = [s for s in ik.body if isinstance(s, ast.Return)]
    if not (len(rets) == 1 and ast.unparse(rets[0].value) == "word.lower() in self.keywords"):
        fail(ik, "is_keyword must be `word.lower() in self.keywords`")
    for cls in ("TransactSqlDialect", "Db2SqlDialect", "PlSqlDialect"):
        if any(isinstance(f, ast.FunctionDef) and f.name in ("is_keyword", "keywords") for f in sql.cls(cls).body):
            fail(sql.cls(cls), "dialect overrides is_keyword/keywords")
    # ANSI dialect: sql_type must return its argument unchanged
    fn = sql.func("sql_type", sql.cls("AnsiSqlDialect").body)
    body = [s for s in fn.body if not (isinstance(s, ast.Expr) and isinstance(s.value, (ast.Constant, ast.Call)))]
    if not (len(body) == 1 and isinstance(body[0], ast.Return) and ast.unparse(body[0].value) == "sql_ansi_type"):
        fail(fn, "AnsiSqlDialect.sql_type must return sql_ansi_type unchanged")
    # sign_adjusted_limit
    fld = Consts(os.path.join(repo, "cutplace/fields.py"))
    sat = fld.func("sql_ansi_type", fld.cls("IntegerFieldFormat").body)
    sal = fld.func("sign_adjusted_limit", sat.body)
    var, expr = simple_if_function(sal, fld)
    out.append("(* IntegerFieldFormat.sql_ansi_type.sign_adjusted_limit *)")
    out.append("Definition sign_adjusted_limit (%s : Z) : Z := %s." % (var, expr))
    return "\n".join(out) + "\n"


def gen_exit_codes(repo):
    app = Consts(os.path.join(repo, "cutplace/applications.py"))
    out = [HEADER % "cutplace/applications.py (main, process, set_options)"]
    main = app.func("main")
    init = None
    handlers = []
    for st in main.body:
        if isinstance(st, ast.Assign) and ast.unparse(st.targets[0]) == "result":
            init = app.ev(st.value)
        if isinstance(st, ast.Try):
            if not (len(st.body) == 1 and ast.unparse(st.body[0]) == "result = process(argv)"):
                fail(st, "try body must be `result = process(argv)`")
            for h in st.handlers:
                names = [ast.unparse(e) for e in (h.type.elts if isinstance(h.type, ast.Tuple) else [h.type])]
                code = None
                for s in h.body:
                    if isinstance(s, ast.Assign) and ast.unparse(s.targets[0]) == "result":
                        code = app.ev(s.value)
                handlers.append((names, code))
    if init is None or not handlers:
        fail(main, "main must initialise result and wrap process() in try/except")
    kinds = {"EnvironmentError": "ExEnvironment", "OSError": "ExEnvironment", "errors.CutplaceError": "ExCutplace", "Exception": "ExOther"}
    out.append("Inductive exn_kind := ExEnvironment | ExCutplace | ExOther.")
    out.append("Definition main_initial_result : Z := %s." % g_z(init))
    rows = []
    for names, code in handlers:
        ks = sorted({kinds[n] for n in names if n in kinds})
        if len(ks) != 1 or any(n not in kinds for n in names):
            raise TranslationError("main: unknown exception class in handler %r" % (names,))
        rows.append("(%s, %s)" % (ks[0], "None" if code is None else "Some " + g_z(code)))
    out.append("(* except clauses of main() in order; None = result keeps its initial value *)")
    out.append("Definition main_handlers : list (exn_kind * option Z) := %s." % g_list(rows, str))
    # process(): result = 0 ... if not all_validations_were_ok: result = 1
    proc = app.func("process")
    res0 = None
    res_fail = None
    for st in ast.walk(proc):
        if isinstance(st, ast.Assign) and ast.unparse(st.targets[0]) == "result":
            v = app.ev(st.value)
            if res0 is None:
                res0 = v
            else:
                res_fail = v
        if isinstance(st, ast.If) and ast.unparse(st.test) == "not cutplace_app.all_validations_were_ok":
            if not (len(st.body) == 1 and isinstance(st.body[0], ast.Assign)):
                fail(st, "expected `result = <int>`")
    if res0 is None or res_fail is None:
        fail(proc, "process must set result twice")
    out.append("Definition process_ok_result : Z := %s." % g_z(res0))
    out.append("Definition process_rejected_result : Z := %s." % g_z(res_fail))
    # set_options: --until mapping
    so = app.func("set_options", app.cls("CutplaceApp").body)
    found = None
    for st in ast.walk(so):
        if isinstance(st, ast.If) and ast.unparse(st.test) == "args.validate_until is not None":
            found = st
    if found is None or len(found.body) != 1 or not isinstance(found.body[0], ast.If):
        fail(so, "set_options: --until mapping not in the expected shape")
    m = found.body[0]
    # if args.validate_until == -1: self.validate_until = None / elif args.validate_until >= 0: = args.validate_until / else: parser.error
    t1 = ast.unparse(m.test)
    b1 = ast.unparse(m.body[0]) if len(m.body) == 1 else ""
    if not (isinstance(m.test, ast.Compare) and ast.unparse(m.test.left) == "args.validate_until" and isinstance(m.test.ops[0], ast.Eq) and b1 == "self.validate_until = None"):
        fail(m, "first --until branch must map one value to None")
    none_value = app.ev(m.test.comparators[0])
    if not (len(m.orelse) == 1 and isinstance(m.orelse[0], ast.If)):
        fail(m, "second --until branch missing")
    m2 = m.orelse[0]
    if not (isinstance(m2.test, ast.Compare) and ast.unparse(m2.test.left) == "args.validate_until" and type(m2.test.ops[0]) in CMP_NAME and len(m2.body) == 1 and ast.unparse(m2.body[0]) == "self.validate_until = args.validate_until"):
        fail(m2, "second --until branch must pass the value through")
    if not (len(m2.orelse) == 1 and ast.unparse(m2.orelse[0]).startswith("parser.error(")):
        fail(m2, "else branch must be parser.error")
    out.append("(* set_options: --until N: N = until_none_value -> no limit; N <until_pass_cmp> until_pass_bound -> limit N; otherwise usage error (exit 2) *)")
    out.append("Definition until_none_value : Z := %s." % g_z(none_value))
    out.append("Definition until_pass_cmp : cmp := %s." % CMP_NAME[type(m2.test.ops[0])])
    out.append("Definition until_pass_bound : Z := %s." % g_z(app.ev(m2.test.comparators[0])))
    _ = t1
    return "\n".join(out) + "\n"


def gen_format_table(repo):
    """DataFormat.__init__: which attribute exists under which format, with its default; and the
    check_distinct pairs of DataFormat.validate with their guards."""
    dat = Consts(os.path.join(repo, "cutplace/data.py"))
    df = dat.cls("DataFormat")
    init = dat.func("__init__", df.body)
    formats = dat.get("_VALID_FORMATS")
    out = [HEADER % "cutplace/data.py (DataFormat.__init__, DataFormat.validate)"]

    def guard_formats(test):
        """formats for which the guard holds"""
        src = ast.unparse(test)
        if isinstance(test, ast.Compare) and ast.unparse(test.left) == "self.format" and len(test.ops) == 1:
            if isinstance(test.ops[0], ast.Eq):
                return [dat.ev(test.comparators[0])]
            if isinstance(test.ops[0], ast.In):
                return list(dat.ev(test.comparators[0]))
        fail(test, "guard must be `self.format == F` or `self.format in (...)`: " + src)

    attrs = []  # (name, formats, default)

    def default_of(v):
        try:
            val = dat.ev(v)
        except TranslationError:
            return None
        return val

    def walk(stmts, fmts):
        for st in stmts:
            if isinstance(st, ast.Assign) and isinstance(st.targets[0], ast.Attribute) and ast.unparse(st.targets[0].value) == "self":
                attrs.append((st.targets[0].attr, list(fmts), default_of(st.value), ast.unparse(st.value)))
            elif isinstance(st, ast.If) and all(isinstance(b, ast.Raise) for b in st.body) and not st.orelse:
                continue
            elif isinstance(st, ast.If):
                g = guard_formats(st.test)
                walk(st.body, [f for f in fmts if f in g])
                if st.orelse:
                    if len(st.orelse) == 1 and isinstance(st.orelse[0], ast.If):
                        walk(st.orelse, [f for f in fmts if f not in g])
                    else:
                        walk(st.orelse, [f for f in fmts if f not in g])
            elif isinstance(st, (ast.Assert, ast.Expr, ast.Raise)):
                continue
            else:
                fail(st, "unexpected statement in DataFormat.__init__")

    walk(init.body, formats)

    def g_default(d, src):
        if d is None:
            return "DNone"
        if isinstance(d, bool):
            return "DBool " + g_bool(d)
        if isinstance(d, int):
            return "DInt " + g_z(d)
        if isinstance(d, str):
            return "DText " + g_text(d)
        return "DOther"

    out.append("Inductive default_value := DNone | DBool (b : bool) | DInt (z : Z) | DText (t : text) | DOther.")
    out.append("(* (attribute name without underscore, formats that define it, default) in source order *)")
    rows = []
    for name, fmts, d, src in attrs:
        if name == "_format":
            continue
        dd = g_default(d, src) if not (d is None and src != "None") else "DOther"
        rows.append("(%s, %s, %s)" % (g_text(name.lstrip("_")), g_list(fmts, g_text), dd))
    out.append("Definition format_attributes : list (text * list text * default_value) := %s." % g_list(rows, str))

    val = dat.func("validate", df.body)
    pairs = []

    def walk2(stmts, fmts, extra):
        for st in stmts:
            if isinstance(st, ast.Expr) and isinstance(st.value, ast.Call) and ast.unparse(st.value.func) == "check_distinct":
                a, b = [dat.ev(x) for x in st.value.args]
                pairs.append((a, b, list(fmts), extra))
            elif isinstance(st, ast.If):
                src = ast.unparse(st.test)
                if src == "self.line_delimiter is not None":
                    walk2(st.body, fmts, True)
                elif src.startswith("self.item_delimiter in"):
                    chars = dat.ev(st.test.comparators[0])
                    if not (len(st.body) >= 1 and isinstance(st.body[-1], ast.Raise)):
                        fail(st, "expected a raise")
                    specials.append((list(fmts), chars))
                else:
                    g = guard_formats(st.test)
                    walk2(st.body, [f for f in fmts if f in g], extra)
                if st.orelse:
                    fail(st, "else in validate not expected")
            elif isinstance(st, (ast.Assert, ast.FunctionDef, ast.Assign)) or (isinstance(st, ast.Expr) and isinstance(st.value, ast.Constant)):
                continue
            else:
                fail(st, "unexpected statement in DataFormat.validate")

    specials = []
    walk2(val.body, formats, False)
    out.append("(* check_distinct(name1, name2) calls of DataFormat.validate: (name1, name2, formats, only_if_line_delimiter_is_not_None) *)")
    out.append(
        "Definition distinct_pairs : list (text * text * list text * bool) := %s."
        % g_list(pairs, lambda p: "(%s, %s, %s, %s)" % (g_text(p[0]), g_text(p[1]), g_list(p[2], g_text), g_bool(p[3])))
    )
    out.append("(* item delimiters refused outright by validate: (formats, characters) *)")
    out.append(
        "Definition refused_item_delimiters : list (list text * list text) := %s."
        % g_list(specials, lambda s: "(%s, %s)" % (g_list(s[0], g_text), g_list(s[1], g_text)))
    )
    return "\n".join(out) + "\n"


# ------------------------------------------------------------------ errors.Location


LOC_FIELDS = {"_line": "lo_line", "_column": "lo_column", "_cell": "lo_cell", "_sheet": "lo_sheet"}
LOC_FLAGS = {"_has_column": "lo_has_column", "_has_cell": "lo_has_cell", "_has_sheet": "lo_has_sheet"}
LOC_ORDER = ["lo_line", "lo_column", "lo_cell", "lo_sheet"]


def _self_attr(n):
    return n.attr if isinstance(n, ast.Attribute) and isinstance(n.value, ast.Name) and n.value.id == "self" else None


def gen_location(repo):
    """errors.Location: the methods that move the counters (asserts become the guard, assignments are applied in order)
    and __str__ (a string built from literals, os.path.basename and %d of counter + 1 under if self._has_x)."""
    err = Consts(os.path.join(repo, "cutplace/errors.py"))
    cls = err.cls("Location")
    out = ["(* GENERATED by tools/py2v.py from cutplace/errors.py (class Location) -- do not edit; regenerated on every run *)",
           "From CP Require Import Model.Base Spec.FieldSpec Model.Location.",
           "Definition dec_of (n : nat) : text := nat_text (Z.of_nat n)."]

    def int_expr(n, env, params):
        if isinstance(n, ast.Constant) and isinstance(n.value, int) and not isinstance(n.value, bool) and 0 <= n.value < 1000:
            return "%d%%nat" % n.value
        if isinstance(n, ast.Name) and n.id in params:
            return n.id
        a = _self_attr(n)
        if a in LOC_FIELDS:
            return env[LOC_FIELDS[a]]
        if isinstance(n, ast.BinOp) and isinstance(n.op, ast.Add):
            return "(%s + %s)%%nat" % (int_expr(n.left, env, params), int_expr(n.right, env, params))
        fail(n, "Location: integer expression not whitelisted")

    def guard(n, env, params):
        """an assert's condition as a bool over nat counters; `x is not None` holds for every nat"""
        if isinstance(n, ast.Compare) and len(n.ops) == 1:
            l, r, op = n.left, n.comparators[0], n.ops[0]
            if isinstance(op, ast.IsNot) and isinstance(r, ast.Constant) and r.value is None and isinstance(l, ast.Name) and l.id in params:
                return "true"
            tab = {ast.Gt: "Nat.ltb %(b)s %(a)s", ast.GtE: "Nat.leb %(b)s %(a)s", ast.Lt: "Nat.ltb %(a)s %(b)s", ast.LtE: "Nat.leb %(a)s %(b)s"}
            if type(op) in tab:
                return "(" + tab[type(op)] % {"a": int_expr(l, env, params), "b": int_expr(r, env, params)} + ")"
        a = _self_attr(n)
        if a in LOC_FLAGS:
            return "(%s l)" % LOC_FLAGS[a]
        fail(n, "Location: assert condition not whitelisted")

    def mutator(name, n_params):
        fn = err.func(name, cls.body)
        params = [a.arg for a in fn.args.args[1:]]
        if len(params) != n_params or fn.args.vararg or fn.args.kwarg or fn.args.kwonlyargs:
            fail(fn, "Location.%s: unexpected parameters" % name)
        env = {v: "(%s l)" % v for v in LOC_ORDER}
        guards = []
        for st in fn.body:
            if isinstance(st, ast.Expr) and isinstance(st.value, ast.Constant) and isinstance(st.value.value, str):
                continue
            if isinstance(st, ast.Assert):
                guards.append(guard(st.test, env, params))
            elif isinstance(st, ast.AugAssign) and isinstance(st.op, ast.Add) and _self_attr(st.target) in LOC_FIELDS:
                f = LOC_FIELDS[_self_attr(st.target)]
                env[f] = "(%s + %s)%%nat" % (env[f], int_expr(st.value, env, params))
            elif isinstance(st, ast.Assign) and len(st.targets) == 1 and _self_attr(st.targets[0]) in LOC_FIELDS:
                env[LOC_FIELDS[_self_attr(st.targets[0])]] = int_expr(st.value, env, params)
            else:
                fail(st, "Location.%s: statement not whitelisted" % name)
        guards = [g for g in guards if g != "true"] or ["true"]
        rec = "{| lo_path := lo_path l; " + "; ".join("%s := %s" % (v, env[v]) for v in LOC_ORDER) + \
              "; lo_has_column := lo_has_column l; lo_has_cell := lo_has_cell l; lo_has_sheet := lo_has_sheet l |}"
        sig = "".join(" (%s : nat)" % q for q in params)
        out.append("Definition g_%s (l : location)%s : option location :=\n  if %s then Some %s else None." % (name, sig, " && ".join(guards), rec))
        # the default of the amount, where there is one
        for q, d in zip(params[::-1], fn.args.defaults[::-1]):
            out.append("Definition g_%s_default_%s : nat := %s." % (name, q, int_expr(d, env, [])))

    for name, k in (("advance_column", 1), ("advance_cell", 1), ("set_cell", 1), ("advance_line", 1), ("advance_sheet", 0)):
        mutator(name, k)

    # property getters: which counter they return and which flag they assert
    getters = {}

    def getter(fn):
        field, need = None, []
        for st in fn.body:
            if isinstance(st, ast.Expr) and isinstance(st.value, ast.Constant):
                continue
            if isinstance(st, ast.Assert) and _self_attr(st.test) in LOC_FLAGS:
                need.append(LOC_FLAGS[_self_attr(st.test)])
            elif isinstance(st, ast.Return) and _self_attr(st.value) in LOC_FIELDS:
                field = LOC_FIELDS[_self_attr(st.value)]
            else:
                fail(st, "Location getter: statement not whitelisted")
        if field is None:
            fail(fn, "Location getter returns no counter")
        return field, need

    for st in cls.body:
        if isinstance(st, ast.FunctionDef) and any(ast.unparse(d) == "property" for d in st.decorator_list):
            getters[st.name] = getter(st)
        if isinstance(st, ast.Assign) and isinstance(st.value, ast.Call) and ast.unparse(st.value.func) == "property" and st.value.args:
            getters[ast.unparse(st.targets[0])] = getter(err.func(ast.unparse(st.value.args[0]), cls.body))

    fn = err.func("__str__", cls.body)
    counter = [0]

    def counter_expr(n, known):
        """self.<getter> + 1 (or a private counter) as a nat expression; a getter's assert must be covered by an enclosing if"""
        if isinstance(n, ast.BinOp) and isinstance(n.op, ast.Add):
            return "(%s + %s)%%nat" % (counter_expr(n.left, known), counter_expr(n.right, known))
        if isinstance(n, ast.Constant) and isinstance(n.value, int) and not isinstance(n.value, bool) and 0 <= n.value < 1000:
            return "%d%%nat" % n.value
        a = _self_attr(n)
        if a in LOC_FIELDS:
            return "(%s l)" % LOC_FIELDS[a]
        if a in getters:
            field, need = getters[a]
            if not set(need) <= set(known):
                fail(n, "Location.__str__: %s is read where its assert is not guarded" % a)
            return "(%s l)" % field
        fail(n, "Location.__str__: counter expression not whitelisted")

    def str_expr(n, cur, known):
        if isinstance(n, ast.Constant) and isinstance(n.value, str):
            return g_text(n.value)
        if isinstance(n, ast.Name) and n.id == "result" and cur is not None:
            return cur
        if isinstance(n, ast.BinOp) and isinstance(n.op, ast.Add):
            return "(%s ++ %s)" % (str_expr(n.left, cur, known), str_expr(n.right, cur, known))
        if isinstance(n, ast.Call) and ast.unparse(n.func) == "os.path.basename" and len(n.args) == 1 and _self_attr(n.args[0]) == "file_path":
            return "(basename (lo_path l))"
        if isinstance(n, ast.BinOp) and isinstance(n.op, ast.Mod) and isinstance(n.left, ast.Constant) and isinstance(n.left.value, str):
            args = list(n.right.elts) if isinstance(n.right, ast.Tuple) else [n.right]
            parts = n.left.value.split("%d")
            if len(parts) != len(args) + 1 or any("%" in q for q in parts):
                fail(n, "Location.__str__: only %d directives are understood")
            pieces = []
            for i, q in enumerate(parts):
                if q:
                    pieces.append(g_text(q))
                if i < len(args):
                    pieces.append("dec_of %s" % counter_expr(args[i], known))
            return "(" + " ++ ".join(pieces or ["[]"]) + ")"
        fail(n, "Location.__str__: string expression not whitelisted")

    def block(stmts, cur, known):
        """returns (let-lines, name of the current value of result, returned?)"""
        lines = []
        for st in stmts:
            if isinstance(st, ast.Expr) and isinstance(st.value, ast.Constant):
                continue
            if isinstance(st, ast.Assign) and len(st.targets) == 1 and ast.unparse(st.targets[0]) == "result":
                e = str_expr(st.value, cur, known)
            elif isinstance(st, ast.AugAssign) and isinstance(st.op, ast.Add) and ast.unparse(st.target) == "result" and cur is not None:
                e = "(%s ++ %s)" % (cur, str_expr(st.value, cur, known))
            elif isinstance(st, ast.If) and _self_attr(st.test) in LOC_FLAGS and cur is not None:
                flag = LOC_FLAGS[_self_attr(st.test)]
                l1, c1 = block(st.body, cur, known + [flag])
                l2, c2 = block(st.orelse, cur, known)
                e = "(if %s l then %s%s else %s%s)" % (flag, "".join(l1), c1, "".join(l2), c2)
            elif isinstance(st, ast.Return) and ast.unparse(st.value) == "result" and st is stmts[-1] and cur is not None:
                break
            else:
                fail(st, "Location.__str__: statement not whitelisted")
            counter[0] += 1
            name = "r%d" % counter[0]
            lines.append("let %s := %s in " % (name, e))
            cur = name
        return lines, cur

    if not (fn.body and isinstance(fn.body[-1], ast.Return)):
        fail(fn, "Location.__str__ must end in `return result`")
    lines, cur = block(fn.body, None, [])
    out.append("Definition g_str (l : location) : text :=\n  " + "\n  ".join(lines) + cur + ".")
    return "\n".join(out) + "\n"


GENERATORS = {
    "Consts.v": gen_consts,
    "SqlLadders.v": gen_sql,
    "ExitCodes.v": gen_exit_codes,
    "FormatTable.v": gen_format_table,
    "LocationOps.v": gen_location,
}


def main():
    ap = argparse.ArgumentParser()
    ap.add_argument("--repo", default="/repo")
    ap.add_argument("--out", required=True)
    args = ap.parse_args()
    os.makedirs(args.out, exist_ok=True)
    failed = False
    for name, gen in GENERATORS.items():
        path = os.path.join(args.out, name)
        try:
            text = gen(args.repo)
        except (TranslationError, SyntaxError, KeyError, AssertionError, TypeError) as e:
            failed = True
            print("py2v: %s: TRANSLATION FAILED: %s: %s" % (name, type(e).__name__, e))
            continue
        old = open(path, encoding="utf-8").read() if os.path.exists(path) else None
        if old != text:
            with open(path, "w", encoding="utf-8") as fh:
                fh.write(text)
            print("py2v: %s regenerated (changed)" % name)
    return 2 if failed else 0


if __name__ == "__main__":
    sys.exit(main())
