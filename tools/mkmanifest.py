#!/usr/bin/env python3
"""Write MANIFEST.json from the table below (keeps the file valid and in one place)."""
import json, os
HERE = os.path.dirname(os.path.dirname(os.path.abspath(__file__)))
ALL = ["C%02d" % i for i in range(1, 21)]
CLAIMED = json.load(open(os.path.join(HERE, "tools", "claims.json")))
checks = []
for pid in ALL:
    if pid in CLAIMED:
        c = CLAIMED[pid]
        checks.append({
            "property_id": pid,
            "quick_cmd": "./check %s quick" % pid,
            "thorough_cmd": "./check %s thorough" % pid,
            "evidence_file": "evidence/%s.json" % pid,
            "replay_cmd_template": "./check %s --replay {path}" % pid,
            "engine": "coq-model",
            "level_claimed": {"category": "proof", "text": c["text"], "design_ref": c["design_ref"]},
            "level_note": c["note"],
            "technique": c["technique"],
        })
na = [{"property_id": p, "reason": "check not built yet in this development (work in progress, see DESIGN.md section 11)"} for p in ALL if p not in CLAIMED]
m = {
    "version": 1,
    "setup_cmd": "./check --setup",
    "hooks": {"guard": "CUTPLACE_VERIF", "enable": "none needed: every observation point is public API or a harness-defined subclass; no hook commits exist",
              "baseline_off_cmd": "python3 tools/baseline.py", "source_commits": [], "add_only": True},
    "engines": [{"name": "coq-model", "path": "coq/", "serves_properties": sorted(CLAIMED),
                 "kind_free_text": "Coq 8.16.1 development: executable Gallina models of cutplace, specs, theorems; tied to /repo by tools/py2v.py (regenerated tables/ladders) and by harness/ correspondence runs evaluated with vm_compute"}],
    "checks": checks,
    "not_applicable": na,
    "notes": "All checks: ./check Cxx quick|thorough. Setup regenerates coq/Generated from /repo and does a full .vo build. Genuine defects found are recorded in known_findings.json (fixed entries name the fix: commit in /repo).",
}
json.dump(m, open(os.path.join(HERE, "MANIFEST.json"), "w"), indent=1)
print("claimed:", sorted(CLAIMED), "not applicable:", [x["property_id"] for x in na])
