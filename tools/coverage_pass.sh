#!/bin/sh
# Which lines of cutplace do the quick checks execute?  Runs every check under coverage.py (present in /venv) and prints
# the lines never executed, per module: the blind spots of the correspondence runs.  Not part of any check.
here=$(cd "$(dirname "$0")/.." && pwd)
export CUTPLACE_REPO=${CUTPLACE_REPO:-/repo} PYTHONPATH=${CUTPLACE_REPO:-/repo} PYTHONHASHSEED=0 PYTHONWARNINGS=ignore PYTHONDONTWRITEBYTECODE=1
out=$here/build/coverage; rm -rf $out; mkdir -p $out
for p in ${*:-C01 C02 C03 C04 C05 C06 C07 C08 C09 C10 C11 C12 C13 C14 C15 C16 C17 C18 C19 C20}; do
  COVERAGE_FILE=$out/.coverage.$p /venv/bin/python -m coverage run --source=$CUTPLACE_REPO/cutplace $here/harness/run.py $p quick > $out/$p.log 2>&1
  echo "$p exit=$?"
done
cd $out && /venv/bin/python -m coverage combine -q .coverage.* && /venv/bin/python -m coverage report -m --omit='*/gui.py' > report.txt; tail -25 report.txt
