#!/bin/sh
# Rewrites of cutplace that keep every property (seeded/harmless/*.diff): each is applied to a scratch copy of the tree
# ($CUTPLACE_REPO, default /tmp/cp_seed = a git worktree of /repo) and the checks of the properties anchored in the code
# it touches are run; every one must exit 0 (no alarm on code where the property holds).
here=$(cd "$(dirname "$0")/.." && pwd)
export CUTPLACE_REPO=${CUTPLACE_REPO:-/tmp/cp_seed}
rc=0
for spec in "H2_range_validate_any:C01 C03" "H3_message_text:C03 C04 C10" \
            "H4_removesuffix:C16 C17" "H5_validate_row_zip:C04 C05 C20" "H6_sql_swapped_operands:C19" "H7_excel_unreadable_as_data_error:C18 C16 C10"; do
  h=${spec%%:*}
  for p in ${spec##*:}; do
    r=$(sh $here/tools/try_seed.sh $here/seeded/harmless/$h.diff $p 2>&1 | tail -1)
    echo "$h $p $r"
    [ "$r" = "exit=0" ] || rc=1
  done
done
exit $rc
