#!/bin/sh
# usage: tools/try_seed.sh <patch.diff> <Cxx> [tier]   -- apply a seeded change to /repo, run the check, undo it
patch=$1; prop=$2; tier=${3:-quick}
git -C ${CUTPLACE_REPO:-/repo} diff --quiet || { echo "/repo has uncommitted changes"; exit 2; }
git -C ${CUTPLACE_REPO:-/repo} apply "$patch" || exit 2
cd "$(dirname "$0")/.." && cp evidence/$prop.json build/evidence_$prop.bak 2>/dev/null; ./check "$prop" "$tier" > build/seed_$prop.log 2>&1; rc=$?; cp build/evidence_$prop.bak evidence/$prop.json 2>/dev/null
git -C ${CUTPLACE_REPO:-/repo} checkout -- .
tail -4 build/seed_$prop.log
echo "exit=$rc"
