#!/usr/bin/env python3
"""Apply every seeded change (seeded/<id>/patch.diff) to the cutplace tree in $CUTPLACE_REPO (default /repo), run the quick
check of the property it breaks (plus the checks listed in ALSO), undo it, and write seeded/MATRIX.md.
The tree must be clean; nothing is committed there."""
import json, os, re, subprocess, sys
HERE = os.path.dirname(os.path.dirname(os.path.abspath(__file__)))
REPO = os.environ.get("CUTPLACE_REPO", "/repo")
ALSO = {"C20w17": ["C07"], "C09w17": ["C01"], "C04w16": ["C15"], "C09w16": ["C02"], "C02w15": ["C01"], "C04w14": ["C15"], "C20w14": ["C07"], "C06w14": ["C02"], "C12w12": ["C14"], "C13w12": ["C10"], "C09w11": ["C17"], "C20w11": ["C03"], "C05w9": ["C08"], "C03w9": ["C07"], "C20w9": ["C14"], "C09w9": ["C01"], "C09w7": ["C20"], "C03w8": ["C20"], "C20w8": ["C03"], "C18w7": ["C07"], "C18w8": ["C07"], "C03w6": ["C20"], "C20w6": ["C03"], "C04w6": ["C06"], "C06w6": ["C04"], "C15w6": ["C17"], "C17w6": ["C15"], "C02": ["C03"], "C17": ["C16"], "C10b": ["C15"], "C05": ["C08", "C20"], "C20": ["C07"], "C08": ["C05"], "C04": ["C06"], "C03": ["C02"]}
def sh(cmd, **kw):
    return subprocess.run(cmd, shell=True, stdout=subprocess.PIPE, stderr=subprocess.STDOUT, text=True, **kw)
if REPO != "/repo" and not os.path.isdir(REPO):
    # a scratch worktree of /repo (removed again by the caller: git -C /repo worktree remove --force <dir>)
    sh("git -C /repo worktree prune")
    assert sh("git -C /repo worktree add -q --detach %s HEAD" % REPO).returncode == 0, "cannot create the scratch worktree"
assert sh("git -C %s diff --quiet" % REPO).returncode == 0, "tree not clean"
FILTER = sys.argv[1] if len(sys.argv) > 1 else ""
OUT = "MATRIX.md" if not FILTER else "MATRIX_%s.md" % (FILTER if "," not in FILTER else "part")
rows = []
# the evidence files describe the unchanged tree: keep them aside while the checks run against seeded trees
import atexit, shutil
_ev, _bak = os.path.join(HERE, "evidence"), os.path.join(HERE, "build", "evidence_before_seed_matrix")
shutil.rmtree(_bak, ignore_errors=True)
shutil.copytree(_ev, _bak)
atexit.register(lambda: (shutil.rmtree(_ev, ignore_errors=True), shutil.copytree(_bak, _ev)))
for sid in sorted(os.listdir(os.path.join(HERE, "seeded"))):
    d = os.path.join(HERE, "seeded", sid)
    if not os.path.isfile(os.path.join(d, "patch.diff")) or not any(f in sid for f in FILTER.split(",")):
        continue
    meta = json.load(open(os.path.join(d, "meta.json")))
    prop = meta.get("property", sid[:3])
    if sh("git -C %s apply %s/patch.diff" % (REPO, d)).returncode != 0:
        rows.append((sid, prop, "patch does not apply", ""))
        continue
    res = []
    try:
        for p in [prop] + ALSO.get(sid, []):
            r = sh("cd %s && ./check %s quick" % (HERE, p), timeout=3000)
            viol = re.findall(r"VIOLATION property=\S+ replay=\S*?-(corr|oracle|proof-broken|correspondence-broken|harness-crash)", r.stdout)
            how = sorted(set(viol))
            res.append("%s: %s" % (p, ("caught (" + ", ".join(how) + ")") if r.returncode == 1 and viol else ("exit %d, not caught" % r.returncode)))
    finally:
        sh("git -C %s checkout -- ." % REPO)
    rows.append((sid, prop, "; ".join(res), meta.get("needs", "")[:160].replace("\n", " ").replace("|", "/")))
    print(rows[-1][:3], flush=True)
with open(os.path.join(HERE, "seeded", OUT), "w") as fh:
    fh.write("# Seeded changes against the checks (quick tier)\n\nWritten by tools/seed_matrix.py. 'corr' = the model and the implementation disagree on a case, "
             "'oracle' = the property restated on the implementation fails, 'proof-broken' = a regenerated table no longer satisfies a theorem.\n\n")
    fh.write("| seed | property | result | needs |\n|---|---|---|---|\n")
    for r in rows:
        fh.write("| %s | %s | %s | %s |\n" % r)
print("written seeded/" + OUT)
