#!/usr/bin/env python3
"""Run /repo's pinned test suite and check that every test of the stable baseline
(/root/.vp/BASELINE.json "stable_pass") still passes. Exit 0 iff none regressed."""
import json, os, subprocess, sys, tempfile
import xml.etree.ElementTree as ET

def main():
    repo = sys.argv[1] if len(sys.argv) > 1 else "/repo"
    base = json.load(open("/root/.vp/BASELINE.json"))
    want = set(base["stable_pass"])
    with tempfile.TemporaryDirectory() as d:
        junit = os.path.join(d, "j.xml")
        env = dict(os.environ)
        env.pop("CUTPLACE_VERIF", None)
        subprocess.run(
            ["/venv/bin/python", "-m", "pytest", "-ra", "-q", "-p", "no:cacheprovider", "--timeout=900",
             "--continue-on-collection-errors", "--junitxml=" + junit],
            cwd=repo, env=env, stdout=subprocess.DEVNULL, stderr=subprocess.DEVNULL)
        passed = set()
        for tc in ET.parse(junit).getroot().iter("testcase"):
            if not any(ch.tag in ("failure", "error", "skipped") for ch in tc):
                passed.add(tc.get("classname") + "::" + tc.get("name"))
    missing = sorted(want - passed)
    print("baseline: %d/%d stable tests pass; %d tests pass in total" % (len(want & passed), len(want), len(passed)))
    for m in missing:
        print("REGRESSED", m)
    # the suite leaves generated files behind; remove untracked ones under tests/
    subprocess.run(["git", "-C", repo, "clean", "-fdq", "tests", "examples"], check=False)
    return 1 if missing else 0

if __name__ == "__main__":
    sys.exit(main())
