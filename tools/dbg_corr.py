"""debug helper: print the first correspondence mismatches of a property module with the model's observation"""
import sys, random, json, os
sys.path.insert(0, os.path.join(os.path.dirname(os.path.abspath(__file__)), "..", "harness"))
import common as C
import importlib
prop = sys.argv[1]; n = int(sys.argv[2]) if len(sys.argv) > 2 else 300
mod = importlib.import_module("props." + prop.lower())
rnd = random.Random(1)
cases = []
for inp in mod.gen_inputs("quick", rnd):
    c = mod.make_case(inp); c["input"] = inp; cases.append(c)
    if len(cases) >= n: break
bad, errs = C.run_shards(prop, mod.HEADER, mod.CASE_TYPE, mod.MODEL, mod.EQB, cases, getattr(mod, "SHARD", 400))
print("cases", len(cases), "bad", len(bad), errs[:1])
for i in bad[:int(sys.argv[3]) if len(sys.argv) > 3 else 2]:
    c = cases[i]
    print("INPUT", json.dumps(c["input"])[:1500])
    print("IMPL ", json.dumps(c["obs"], default=str)[:1500])
    print("MODEL", C.eval_model(prop, mod.HEADER, mod.CASE_TYPE, mod.MODEL, c["coq"])[:1500])
